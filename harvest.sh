#!/bin/bash
# usage: harvest.sh <ID> <suffix> "<verif_result>" [replay files...]   keep a confirmed seeded change under seeded/<ID>-<suffix>/ and remove its scratch worktree
id=$1; suf=$2; res=$3; shift 3
src=/tmp/wt-${id}${WT_SUF:-d}/OUT; dst=/verif/seeded/$id-$suf
mkdir -p $dst && cp $src/patch.diff $src/demo.diff $src/meta.json $dst/ || exit 1
for r in "$@"; do [ -f "$r" ] && mv "$r" $dst/; done
python3 - "$dst/meta.json" "$res" "$(grep -A3 "== $id" /tmp/verify_*.log 2>/dev/null | cut -c1-400)" <<'P'
import json,sys
p,res,conf=sys.argv[1],sys.argv[2],sys.argv[3]
m=json.load(open(p)); m['verif_result']=res; m['confirmed_by_me']=conf; m['round']=int(''.join(ch for ch in p.split('-a')[-1].split('/')[0] if ch.isdigit()) or 4)
json.dump(m,open(p,'w'),indent=1)
P
git -C /repo worktree remove --force /tmp/wt-${id}${WT_SUF:-d} && echo "removed worktree of $id"
