#!/usr/bin/env python3-vt
"""Validate MANIFEST.json and the evidence files against the given schemas. Run with python3-vt."""
import json, os, jsonschema
m = json.load(open('/verif/MANIFEST.json'))
jsonschema.validate(m, json.load(open('/root/.vp/MANIFEST.schema.json')))
es = json.load(open('/root/.vp/EVIDENCE.schema.json'))
for c in m["checks"]:
    p = os.path.join('/verif', c["evidence_file"])
    if os.path.exists(p):
        jsonschema.validate(json.load(open(p)), es)
    else:
        print("missing evidence", p)
print("schemas ok:", len(m["checks"]), "checks")
