#!/bin/bash
# usage: seedtest.sh <name> <patch.diff> <check> [<check>...]
# Applies a seeded breaking change to /repo, runs the given checks (quick tier), and reverts.
name=$1; patch=$2; shift 2
cd /repo || exit 2
if ! git diff --quiet; then echo "repo dirty"; exit 2; fi
if ! git apply --check "$patch" 2>/dev/null; then echo "PATCH DOES NOT APPLY: $patch"; exit 3; else git apply "$patch"; fi
res=""
for c in "$@"; do
  out=$(cd /verif && ./check $c --tier quick 2>&1)
  rc=$?
  echo "== $name / $c: exit=$rc"
  echo "$out" | grep -E "VIOLATION|KNOWN-FINDING|HARNESS|clause=" | cut -c1-400
  res="$res $c=$rc"
done
git -C /repo checkout -- .
git -C /repo status --short | head -3
echo "RESULT $name:$res"
