#!/bin/bash
# usage: verify_seed.sh <ID>...   confirm a sub-agent's seeded change in its scratch worktree /tmp/wt-<ID>d:
#   patch alone: builds, the 36 pinned tests pass (1 known failure); demo alone passes; patch + demo: the demo fails
for id in "$@"; do
  d=/tmp/wt-${id}${WT_SUF:-d}; cd $d || continue
  git checkout -q -- . ; git clean -qfd src
  run() { CARGO_NET_OFFLINE=true cargo test --offline -j 8 -p rnacos --lib 2>&1 | grep -E "^test result|^test .* FAILED|error(\[|:)" | head -8 | tr '\n' ';'; }
  git apply OUT/patch.diff || { echo "$id: patch does not apply"; continue; }
  p=$(run); git checkout -q -- . ; git clean -qfd src
  git apply OUT/demo.diff || { echo "$id: demo does not apply"; continue; }
  dm=$(run); git checkout -q -- . ; git clean -qfd src
  git apply OUT/patch.diff OUT/demo.diff || { echo "$id: patch+demo do not apply together"; continue; }
  b=$(run); git checkout -q -- . ; git clean -qfd src
  echo "== $id"; echo "  patch only : $p"; echo "  demo only  : $dm"; echo "  patch+demo : $b"
done
