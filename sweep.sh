#!/bin/bash
# usage: sweep.sh <tier> <seed-from> <seed-to> [checks...]   (background exploration over other seed ranges; not a registered check)
# Runs every check once per VERIF_SEED value and prints one line per (check, seed); VIOLATION / HARNESS lines are kept.
tier=$1; a=$2; b=$3; shift 3
checks=${@:-C01 C02 C03 C04 C05 C06 C07 C08 C09 C10 C11 C12 C13 C14 C15 C16 C17 C19 C20}
for s in $(seq $a $b); do
  for c in $checks; do
    out=$(VERIF_SEED=$s ./check $c --tier $tier 2>&1); rc=$?
    echo "== seed=$s $c rc=$rc $(echo "$out" | grep -E ' runs, ' | tail -1)"
    if [ $rc -ne 0 ]; then echo "$out" | grep -E "VIOLATION|HARNESS|clause=" | cut -c1-700; fi
  done
done
