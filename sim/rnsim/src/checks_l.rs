//! C02 / C03 / C05 on Rig-L: generators and Check impls.
use crate::core::*;
use crate::rig_l::*;
use serde_json::{json, Value};
use tokio::sim::Rng;

fn swarm_cfg(rng: &mut Rng, tier: Tier, allow_faults: bool) -> LCfg {
    let mut cfg = LCfg::default();
    // index interval knob: small intervals make index-boundary logic reachable in tens of records
    let r = rng.below(100);
    cfg.interval = if r < 30 { 0 } else if r < 50 { 2 } else if r < 70 { 3 } else if r < 90 { 8 } else { 16 };
    // shrunken index area forces rollover after a few dozen index entries
    cfg.area = if cfg.interval != 0 && rng.chance(0.35) { *rng.pick(&[48u16, 56, 64, 80, 128]) } else { 0 };
    if rng.chance(0.5) {
        cfg.p_delay = *rng.pick(&[0.05, 0.2, 0.5]);
        cfg.max_delay_us = *rng.pick(&[50u64, 2_000, 300_000]);
    }
    if rng.chance(0.3) {
        cfg.p_yield = 0.2;
    }
    if rng.chance(0.3) {
        cfg.p_short_write = 0.1;
    }
    // short reads of a regular file are not injected here: tokio::fs returns full counts below
    // 2 MiB; chunking of reads is C20's subject (Rig-C)
    let _ = rng.chance(0.3);
    if allow_faults && tier == Tier::Thorough && rng.chance(0.2) {
        cfg.p_eio_write = 0.01;
        cfg.p_enospc_write = 0.01;
    }
    cfg
}

fn shadow(cfg: &LCfg) -> GenShadow {
    GenShadow {
        since_idx: 0,
        cnt: 0,
        interval: if cfg.interval == 0 { 128 } else { cfg.interval as u64 },
        next: cfg.first_index,
        term: 1,
        uniq: 0,
        known: true,
        count: 0,
    }
}

fn gen_append(rng: &mut Rng, sh: &mut GenShadow, hits: &mut u64) -> LStep {
    let term_up = rng.chance(0.08);
    if term_up {
        sh.term += 1;
    }
    if rng.chance(0.08) {
        // blank / config change entries
        sh.uniq += 1;
        let kind = if rng.chance(0.5) { 1 } else { 2 };
        let fs = frame_size(sh.next, sh.term, &mk_payload(sh.uniq, 0, kind));
        sh.since_idx += fs;
        sh.cnt += 1;
        if sh.cnt % sh.interval == 0 {
            sh.since_idx = 0;
        }
        sh.next += 1;
        sh.count += 1;
        return LStep::Append { pad: 0, kind, term_up };
    }
    let pad = gen_pad(rng, sh, hits);
    LStep::Append { pad, kind: 0, term_up }
}

fn gen_replicate(rng: &mut Rng, sh: &mut GenShadow, hits: &mut u64, max: u64) -> LStep {
    let term_up = rng.chance(0.08);
    if term_up {
        sh.term += 1;
    }
    let n = rng.range(1, max);
    let pads = (0..n).map(|_| gen_pad(rng, sh, hits)).collect();
    LStep::Replicate { pads, term_up }
}

pub struct C02;
impl Check for C02 {
    fn id(&self) -> &'static str {
        "C02"
    }
    fn generate(&self, seed: u64, tier: Tier) -> Value {
        let mut rng = Rng::derive(seed, "C02.gen", 0);
        let cfg = swarm_cfg(&mut rng, tier, true);
        let mut sh = shadow(&cfg);
        let mut hits = 0u64;
        let hi = if rng.chance(0.2) { 120 } else { 40 };
        let n = rng.range(5, hi);
        let mut steps = vec![];
        let long_fill = cfg.area != 0 || rng.chance(0.15);
        for _ in 0..n {
            let r = rng.below(100);
            let st = if r < 38 {
                gen_append(&mut rng, &mut sh, &mut hits)
            } else if r < 58 {
                gen_replicate(&mut rng, &mut sh, &mut hits, if long_fill { 40 } else { 20 })
            } else if r < 66 {
                sh.known = false;
                LStep::DeleteFrom { back: rng.range(0, 6) }
            } else if r < 72 {
                LStep::HardState { term_up: rng.range(0, 2), vote: rng.range(0, 5) }
            } else if r < 76 {
                let k = rng.range(1, 5);
                LStep::Member { members: (1..=k).collect(), after: if rng.chance(0.3) { (1..=k + 1).collect() } else { vec![] }, addr_len: rng.range(1, 60) as usize }
            } else if r < 81 {
                sh.known = false;
                LStep::Compact { back: rng.range(0, 5) }
            } else if r < 84 {
                LStep::SaveApplied { back: rng.range(0, 3) }
            } else if r < 88 {
                LStep::Advance { ms: *rng.pick(&[1u64, 100, 600, 1100]) }
            } else {
                // after a reopen the scan restarts from the last index entry: shadow stays valid
                LStep::Reopen
            };
            steps.push(st);
        }
        steps.push(LStep::Advance { ms: 600 });
        steps.push(LStep::Reopen);
        json!({"check": "C02", "seed": seed, "cfg": cfg, "steps": steps, "gen": {"aligned": hits}})
    }
    fn execute(&self, script: Value) -> LocalFut<ExecResult> {
        Box::pin(exec_lscript("C02", script))
    }
    fn shrink_step(&self, step: &Value) -> Vec<Value> {
        shrink_lstep(step)
    }
    fn shrink_cfg(&self, cfg: &Value) -> Vec<Value> {
        shrink_lcfg(cfg)
    }
}

pub fn shrink_lstep(step: &Value) -> Vec<Value> {
    let mut out: Vec<LStep> = vec![];
    let s: LStep = match serde_json::from_value(step.clone()) {
        Ok(s) => s,
        Err(_) => return vec![],
    };
    match s {
        LStep::Append { pad, kind, term_up } => {
            if term_up {
                out.push(LStep::Append { pad, kind, term_up: false });
            }
            if kind != 0 {
                out.push(LStep::Append { pad, kind: 0, term_up });
            }
            if pad > 0 {
                out.push(LStep::Append { pad: 0, kind, term_up });
                out.push(LStep::Append { pad: pad / 2, kind, term_up });
            }
        }
        LStep::Replicate { pads, term_up } => {
            if pads.len() > 1 {
                out.push(LStep::Replicate { pads: pads[..pads.len() / 2].to_vec(), term_up });
                out.push(LStep::Replicate { pads: pads[..pads.len() - 1].to_vec(), term_up });
                out.push(LStep::Replicate { pads: pads[1..].to_vec(), term_up });
            }
            if pads.iter().any(|p| *p > 0) {
                out.push(LStep::Replicate { pads: pads.iter().map(|_| 0).collect(), term_up });
            }
            if term_up {
                out.push(LStep::Replicate { pads, term_up: false });
            }
        }
        LStep::DeleteFrom { back } if back > 1 => out.push(LStep::DeleteFrom { back: 1 }),
        LStep::Compact { back } if back > 0 => out.push(LStep::Compact { back: 0 }),
        LStep::Advance { ms } if ms > 1 => out.push(LStep::Advance { ms: 1 }),
        LStep::Member { members, after, addr_len } => {
            if addr_len > 1 {
                out.push(LStep::Member { members: members.clone(), after: after.clone(), addr_len: 1 });
            }
            if !after.is_empty() {
                out.push(LStep::Member { members, after: vec![], addr_len });
            }
        }
        _ => {}
    }
    out.into_iter().map(|s| serde_json::to_value(s).unwrap()).collect()
}

pub fn shrink_lcfg(cfg: &Value) -> Vec<Value> {
    let c: LCfg = match serde_json::from_value(cfg.clone()) {
        Ok(c) => c,
        Err(_) => return vec![],
    };
    let mut out: Vec<LCfg> = vec![];
    if c.p_delay > 0.0 || c.max_delay_us > 0 {
        let mut d = c.clone();
        d.p_delay = 0.0;
        d.max_delay_us = 0;
        out.push(d);
    }
    if c.p_yield > 0.0 {
        let mut d = c.clone();
        d.p_yield = 0.0;
        out.push(d);
    }
    if c.p_short_write > 0.0 {
        let mut d = c.clone();
        d.p_short_write = 0.0;
        out.push(d);
    }
    if c.p_short_read > 0.0 {
        let mut d = c.clone();
        d.p_short_read = 0.0;
        out.push(d);
    }
    if c.area != 0 {
        let mut d = c.clone();
        d.area = 0;
        out.push(d);
    }
    if c.interval != 0 {
        let mut d = c.clone();
        d.interval = 0;
        d.area = 0;
        out.push(d);
    }
    out.into_iter().map(|c| serde_json::to_value(c).unwrap()).collect()
}
