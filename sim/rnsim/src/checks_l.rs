//! C02 / C03 / C05 on Rig-L: generators and Check impls.
use crate::core::*;
use crate::rig_l::*;
use serde_json::{json, Value};
use tokio::sim::Rng;

fn swarm_cfg(rng: &mut Rng, tier: Tier, allow_faults: bool, allow_short_write: bool) -> LCfg {
    let mut cfg = LCfg::default();
    // index interval knob: small intervals make index-boundary logic reachable in tens of records
    let r = rng.below(100);
    cfg.interval = if r < 30 { 0 } else if r < 50 { 2 } else if r < 70 { 3 } else if r < 90 { 8 } else { 16 };
    // shrunken index area forces rollover after a few dozen index entries
    cfg.area = if cfg.interval != 0 && rng.chance(0.35) { *rng.pick(&[48u16, 56, 64, 80, 128]) } else { 0 };
    if rng.chance(0.5) {
        cfg.p_delay = *rng.pick(&[0.05, 0.2, 0.5]);
        cfg.max_delay_us = *rng.pick(&[50u64, 2_000, 300_000]);
    }
    if rng.chance(0.3) {
        cfg.p_yield = 0.2;
    }
    // a short write splits one write_all into two write calls: legal for AsyncWrite, but tokio::fs
    // never does it below 2 MiB, and a kill between the two calls would be a torn write, which is
    // outside the crash model - so only checks without kills use it
    if rng.chance(0.3) && allow_short_write {
        cfg.p_short_write = 0.1;
    }
    // short reads of a regular file are not injected here: tokio::fs returns full counts below
    // 2 MiB; chunking of reads is C20's subject (Rig-C)
    let _ = rng.chance(0.3);
    if allow_faults && tier == Tier::Thorough && rng.chance(0.2) {
        cfg.p_eio_write = 0.01;
        cfg.p_enospc_write = 0.01;
    }
    cfg
}

fn shadow(cfg: &LCfg) -> GenShadow {
    GenShadow {
        since_idx: 0,
        cnt: 0,
        interval: if cfg.interval == 0 { 128 } else { cfg.interval as u64 },
        next: cfg.first_index,
        term: 1,
        uniq: 0,
        known: true,
        count: 0,
        abs: 4096,
        file_len: 1024 * 1024,
    }
}

fn gen_append(rng: &mut Rng, sh: &mut GenShadow, hits: &mut u64) -> LStep {
    let term_up = rng.chance(0.08);
    if term_up {
        sh.term += 1;
    }
    if rng.chance(0.08) {
        // blank / config change entries
        sh.uniq += 1;
        let kind = if rng.chance(0.5) { 1 } else { 2 };
        let fs = frame_size(sh.next, sh.term, &mk_payload(sh.uniq, 0, kind));
        sh.account(fs);
        return LStep::Append { pad: 0, kind, term_up };
    }
    let pad = gen_pad(rng, sh, hits);
    LStep::Append { pad, kind: 0, term_up }
}

fn gen_replicate(rng: &mut Rng, sh: &mut GenShadow, hits: &mut u64, max: u64) -> LStep {
    let term_up = rng.chance(0.08);
    if term_up {
        sh.term += 1;
    }
    let n = rng.range(1, max);
    let pads = (0..n).map(|_| gen_pad(rng, sh, hits)).collect();
    LStep::Replicate { pads, term_up, term_step: false }
}

pub struct C02;
impl Check for C02 {
    fn id(&self) -> &'static str {
        "C02"
    }
    fn generate(&self, seed: u64, tier: Tier) -> Value {
        let mut rng = Rng::derive(seed, "C02.gen", 0);
        // injected write errors are outside C02's quantifier (operation histories and sizes): see DESIGN.md 8.2
        let cfg = swarm_cfg(&mut rng, tier, false, true);
        let mut sh = shadow(&cfg);
        let mut hits = 0u64;
        let hi = if rng.chance(0.2) { 120 } else { 40 };
        let n = rng.range(5, hi);
        let mut steps = vec![];
        let long_fill = cfg.area != 0 || rng.chance(0.15);
        let mut file_end_done = false;
        // small geometry (files roll over after a few hundred tiny records): in a third of these runs the history ends with
        // batches in which every entry has its own term until the log spans several files, a truncation at the first index
        // of the newest file, and a reopen (nothing appended in between)
        let rollover_tail = cfg.area != 0 && Rng::derive(seed, "C02.rollover_tail", 0).chance(0.35);
        for _ in 0..n {
            let r = rng.below(100);
            let st = if r < 4 && cfg.area == 0 && !file_end_done {
                // a record ending exactly at the pre-allocated end of the log file, then (usually) a reopen
                match gen_pad_to_file_end(&mut rng, &mut sh) {
                    Some(pad) => {
                        file_end_done = true;
                        steps.push(LStep::Append { pad, kind: 0, term_up: false });
                        if rng.chance(0.7) {
                            LStep::Reopen
                        } else {
                            LStep::Advance { ms: 1 }
                        }
                    }
                    None => gen_append(&mut rng, &mut sh, &mut hits),
                }
            } else if r < 38 {
                gen_append(&mut rng, &mut sh, &mut hits)
            } else if r < 58 {
                gen_replicate(&mut rng, &mut sh, &mut hits, if long_fill { 40 } else { 20 })
            } else if r < 66 {
                sh.known = false;
                LStep::DeleteFrom { back: rng.range(0, 6), file_start: false }
            } else if r < 72 {
                LStep::HardState { term_up: rng.range(0, 2), vote: rng.range(0, 5) }
            } else if r < 76 {
                let k = rng.range(1, 5);
                LStep::Member { members: (1..=k).collect(), after: if rng.chance(0.3) { (1..=k + 1).collect() } else { vec![] }, addr_len: rng.range(1, 60) as usize }
            } else if r < 81 {
                sh.known = false;
                LStep::Compact { back: rng.range(0, 5) }
            } else if r < 84 {
                LStep::SaveApplied { back: rng.range(0, 3) }
            } else if r < 88 {
                LStep::Advance { ms: *rng.pick(&[1u64, 100, 600, 1100]) }
            } else {
                // after a reopen the scan restarts from the last index entry: shadow stays valid
                LStep::Reopen
            };
            steps.push(st);
        }
        steps.push(LStep::Advance { ms: 600 });
        steps.push(LStep::Reopen);
        if rollover_tail {
            for _ in 0..rng.range(2, 5) {
                let k = rng.range(10, 40);
                let pads: Vec<usize> = (0..k).map(|_| gen_pad(&mut rng, &mut sh, &mut hits) % 40).collect();
                steps.push(LStep::Replicate { pads, term_up: false, term_step: true });
            }
            sh.known = false;
            steps.push(LStep::DeleteFrom { back: 1, file_start: true });
            steps.push(LStep::Reopen);
        }
        json!({"check": "C02", "seed": seed, "cfg": cfg, "steps": steps, "gen": {"aligned": hits}})
    }
    fn execute(&self, script: Value) -> LocalFut<ExecResult> {
        Box::pin(exec_lscript("C02", script))
    }
    fn shrink_step(&self, step: &Value) -> Vec<Value> {
        shrink_lstep(step)
    }
    fn shrink_cfg(&self, cfg: &Value) -> Vec<Value> {
        shrink_lcfg(cfg)
    }
}

pub fn shrink_lstep(step: &Value) -> Vec<Value> {
    let mut out: Vec<LStep> = vec![];
    let s: LStep = match serde_json::from_value(step.clone()) {
        Ok(s) => s,
        Err(_) => return vec![],
    };
    match s {
        LStep::Append { pad, kind, term_up } => {
            if term_up {
                out.push(LStep::Append { pad, kind, term_up: false });
            }
            if kind != 0 {
                out.push(LStep::Append { pad, kind: 0, term_up });
            }
            if pad > 0 {
                out.push(LStep::Append { pad: 0, kind, term_up });
                out.push(LStep::Append { pad: pad / 2, kind, term_up });
            }
        }
        LStep::Replicate { pads, term_up, term_step } => {
            if pads.len() > 1 {
                out.push(LStep::Replicate { pads: pads[..pads.len() / 2].to_vec(), term_up, term_step });
                out.push(LStep::Replicate { pads: pads[..pads.len() - 1].to_vec(), term_up, term_step });
                out.push(LStep::Replicate { pads: pads[1..].to_vec(), term_up, term_step });
            }
            if pads.iter().any(|p| *p > 0) {
                out.push(LStep::Replicate { pads: pads.iter().map(|_| 0).collect(), term_up, term_step });
            }
            if term_up {
                out.push(LStep::Replicate { pads, term_up: false, term_step });
            }
        }
        LStep::DeleteFrom { back, file_start } if back > 1 => out.push(LStep::DeleteFrom { back: 1, file_start }),
        LStep::Compact { back } if back > 0 => out.push(LStep::Compact { back: 0 }),
        LStep::Advance { ms } if ms > 1 => out.push(LStep::Advance { ms: 1 }),
        LStep::Member { members, after, addr_len } => {
            if addr_len > 1 {
                out.push(LStep::Member { members: members.clone(), after: after.clone(), addr_len: 1 });
            }
            if !after.is_empty() {
                out.push(LStep::Member { members, after: vec![], addr_len });
            }
        }
        _ => {}
    }
    out.into_iter().map(|s| serde_json::to_value(s).unwrap()).collect()
}

pub fn shrink_lcfg(cfg: &Value) -> Vec<Value> {
    let c: LCfg = match serde_json::from_value(cfg.clone()) {
        Ok(c) => c,
        Err(_) => return vec![],
    };
    let mut out: Vec<LCfg> = vec![];
    if c.p_delay > 0.0 || c.max_delay_us > 0 {
        let mut d = c.clone();
        d.p_delay = 0.0;
        d.max_delay_us = 0;
        out.push(d);
    }
    if c.p_yield > 0.0 {
        let mut d = c.clone();
        d.p_yield = 0.0;
        out.push(d);
    }
    if c.p_short_write > 0.0 {
        let mut d = c.clone();
        d.p_short_write = 0.0;
        out.push(d);
    }
    if c.p_short_read > 0.0 {
        let mut d = c.clone();
        d.p_short_read = 0.0;
        out.push(d);
    }
    if c.area != 0 {
        let mut d = c.clone();
        d.area = 0;
        out.push(d);
    }
    if c.interval != 0 {
        let mut d = c.clone();
        d.interval = 0;
        d.area = 0;
        out.push(d);
    }
    out.into_iter().map(|c| serde_json::to_value(c).unwrap()).collect()
}

// ---------------------------------------------------------------------------
// C03: truncation removes exactly the suffix; the log stays appendable

pub struct C03;
impl Check for C03 {
    fn id(&self) -> &'static str {
        "C03"
    }
    fn generate(&self, seed: u64, tier: Tier) -> Value {
        let mut rng = Rng::derive(seed, "C03.gen", 0);
        let mut cfg = swarm_cfg(&mut rng, tier, false, true);
        // shapes with several files need the small geometry more often
        if rng.chance(0.5) {
            cfg.interval = *rng.pick(&[2u16, 3, 8]);
            cfg.area = *rng.pick(&[48u16, 56, 64, 80]);
        }
        let mut sh = shadow(&cfg);
        let mut hits = 0u64;
        let mut steps = vec![];
        let interval = if cfg.interval == 0 { 128 } else { cfg.interval as u64 };
        // phase 1: build a shape
        let fill = if cfg.interval == 0 { rng.range(1, 3) * 70 } else { rng.range(3, 60) };
        let mut left = fill;
        while left > 0 {
            let n = rng.range(1, left.min(30));
            if rng.chance(0.5) {
                steps.push(gen_replicate(&mut rng, &mut sh, &mut hits, n));
            } else {
                for _ in 0..n.min(6) {
                    steps.push(gen_append(&mut rng, &mut sh, &mut hits));
                }
            }
            left = left.saturating_sub(n);
            let r = rng.below(100);
            if r < 8 {
                steps.push(LStep::Compact { back: rng.range(0, 10) });
            } else if r < 11 {
                steps.push(LStep::InstallPointer { rel: rng.range(0, 12) as i64 - 8 });
            } else if r < 16 {
                steps.push(LStep::Reopen);
            }
        }
        // phase 2/3: cut, re-append shorter / equal / longer, optional reopen; a few rounds
        let rounds = rng.range(1, 4);
        for _ in 0..rounds {
            let r = rng.below(100);
            let back = if r < 35 {
                rng.range(1, 4)
            } else if r < 70 {
                // around index-entry boundaries: multiples of the interval +-1
                let m = rng.range(1, 4) * interval;
                (m as i64 + *rng.pick(&[-1i64, 0, 0, 1])).max(1) as u64
            } else if r < 90 {
                rng.range(1, fill.max(2))
            } else {
                0
            };
            sh.known = false;
            steps.push(LStep::DeleteFrom { back, file_start: false });
            if rng.chance(0.25) {
                steps.push(LStep::Reopen);
            }
            let n = rng.range(0, 8);
            let style = rng.below(3);
            for _ in 0..n {
                let pad = match style {
                    0 => 0,
                    1 => rng.range(50, 80) as usize,
                    _ => *rng.pick(&[300usize, 1000, 2048, 16300]),
                };
                steps.push(LStep::Append { pad, kind: 0, term_up: rng.chance(0.3) });
            }
            if rng.chance(0.6) {
                steps.push(LStep::Reopen);
            }
        }
        steps.push(LStep::Append { pad: 1, kind: 0, term_up: false });
        steps.push(LStep::Reopen);
        json!({"check": "C03", "seed": seed, "cfg": cfg, "steps": steps})
    }
    fn execute(&self, script: Value) -> LocalFut<ExecResult> {
        Box::pin(exec_lscript("C03", script))
    }
    fn shrink_step(&self, step: &Value) -> Vec<Value> {
        shrink_lstep(step)
    }
    fn shrink_cfg(&self, cfg: &Value) -> Vec<Value> {
        shrink_lcfg(cfg)
    }
}

// ---------------------------------------------------------------------------
// C05: vote, term, membership and addresses are durable and never regress

pub struct C05;
impl Check for C05 {
    fn id(&self) -> &'static str {
        "C05"
    }
    fn generate(&self, seed: u64, tier: Tier) -> Value {
        let mut rng = Rng::derive(seed, "C05.gen", 0);
        let mut cfg = swarm_cfg(&mut rng, tier, false, false);
        if rng.chance(0.6) {
            cfg.p_delay = *rng.pick(&[0.2, 0.5, 0.9]);
            cfg.max_delay_us = *rng.pick(&[2_000u64, 50_000, 300_000]);
        }
        let mut sh = shadow(&cfg);
        let mut hits = 0u64;
        let n = rng.range(4, 40);
        let mut steps = vec![];
        let mut long_addr = false;
        for _ in 0..n {
            let r = rng.below(100);
            let st = if r < 30 {
                LStep::HardState { term_up: rng.range(0, 2), vote: rng.range(0, 5) }
            } else if r < 42 {
                let k = rng.range(1, 5);
                // alternate long / short records so that a shorter catalogue follows a longer one in place
                long_addr = !long_addr;
                LStep::Member { members: (1..=k).collect(), after: if rng.chance(0.3) { (1..=k + 1).collect() } else { vec![] }, addr_len: if rng.chance(0.4) { 0 } else if long_addr { rng.range(30, 120) as usize } else { 1 } }
            } else if r < 52 {
                long_addr = !long_addr;
                LStep::NodeAddr { id: rng.range(1, 5), addr_len: if long_addr { rng.range(30, 120) as usize } else { 1 } }
            } else if r < 64 {
                // other writers of the same file: roll-over (SaveLogs), compaction (SaveSnapshots), applied index
                gen_replicate(&mut rng, &mut sh, &mut hits, 12)
            } else if r < 70 {
                LStep::Compact { back: rng.range(0, 3) }
            } else if r < 76 {
                LStep::SaveApplied { back: rng.range(0, 3) }
            } else if r < 80 {
                LStep::DeleteFrom { back: rng.range(1, 5), file_start: false }
            } else if r < 84 {
                LStep::Advance { ms: *rng.pick(&[1u64, 100, 600]) }
            } else if r < 93 {
                LStep::Reopen
            } else {
                LStep::CrashNow
            };
            steps.push(st);
        }
        steps.push(LStep::Reopen);
        json!({"check": "C05", "seed": seed, "cfg": cfg, "steps": steps})
    }
    fn execute(&self, script: Value) -> LocalFut<ExecResult> {
        Box::pin(exec_lscript("C05", script))
    }
    fn shrink_step(&self, step: &Value) -> Vec<Value> {
        shrink_lstep(step)
    }
    fn shrink_cfg(&self, cfg: &Value) -> Vec<Value> {
        shrink_lcfg(cfg)
    }
}

// ---------------------------------------------------------------------------
// C04: crash-consistency at every file-write boundary (exhaustive over the crash prefixes of each sampled history)

pub struct C04;
impl Check for C04 {
    fn id(&self) -> &'static str {
        "C04"
    }
    fn generate(&self, seed: u64, tier: Tier) -> Value {
        let mut rng = Rng::derive(seed, "C04.gen", 0);
        let mut cfg = swarm_cfg(&mut rng, tier, false, false);
        cfg.p_yield = 0.0;
        let mut sh = shadow(&cfg);
        let mut hits = 0u64;
        let n = rng.range(3, 14);
        let mut steps = vec![];
        // a tenth of the histories (default geometry): one record that fills the log file up to (or one byte around) its
        // pre-allocated end, so that the appends after it grow the file - the crash points inside that growth
        let file_end_at = if cfg.area == 0 && Rng::derive(seed, "C04.file_end", 0).chance(0.1) { Some(rng.range(0, 3)) } else { None };
        for i in 0..n {
            if Some(i) == file_end_at {
                if let Some(pad) = gen_pad_to_file_end(&mut rng, &mut sh) {
                    steps.push(LStep::Append { pad, kind: 0, term_up: false });
                    steps.push(gen_append(&mut rng, &mut sh, &mut hits));
                    continue;
                }
            }
            let r = rng.below(100);
            let st = if r < 25 {
                gen_append(&mut rng, &mut sh, &mut hits)
            } else if r < 45 {
                gen_replicate(&mut rng, &mut sh, &mut hits, 10)
            } else if r < 55 {
                sh.known = false;
                LStep::DeleteFrom { back: rng.range(1, 6), file_start: false }
            } else if r < 63 {
                LStep::HardState { term_up: rng.range(0, 2), vote: rng.range(0, 5) }
            } else if r < 68 {
                let k = rng.range(1, 4);
                LStep::Member { members: (1..=k).collect(), after: vec![], addr_len: rng.range(1, 40) as usize }
            } else if r < 76 {
                LStep::Compact { back: rng.range(0, 4) }
            } else if r < 80 {
                LStep::InstallPointer { rel: rng.range(0, 8) as i64 - 5 }
            } else if r < 86 {
                LStep::SaveApplied { back: rng.range(0, 3) }
            } else if r < 92 {
                LStep::Advance { ms: 600 }
            } else {
                LStep::Reopen
            };
            steps.push(st);
        }
        let max_images = if tier == Tier::Thorough { 400 } else { 120 };
        json!({"check": "C04", "seed": seed, "cfg": cfg, "steps": steps, "max_images": max_images})
    }
    fn execute(&self, script: Value) -> LocalFut<ExecResult> {
        Box::pin(exec_c04(script))
    }
    fn shrink_step(&self, step: &Value) -> Vec<Value> {
        shrink_lstep(step)
    }
    fn shrink_cfg(&self, cfg: &Value) -> Vec<Value> {
        shrink_lcfg(cfg)
    }
}
