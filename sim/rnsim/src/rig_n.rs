//! Rig-N: n complete r-nacos nodes (the real `config_factory`, real async-raft, real
//! handlers) in one single-threaded simulation, joined by a simulated network.
use crate::core::*;
use actix::prelude::*;
use rnacos::common::appdata::AppShareData;
use rnacos::common::AppSysConfig;
use rnacos::grpc::handler::InvokerHandler;
use rnacos::grpc::nacos_proto::Payload;
use rnacos::grpc::{PayloadHandler, RequestMeta};
use rnacos::raft::filestore::model::{SnapshotHeaderDto, SnapshotRecordDto};
use rnacos::raft::filestore::raftdata::RaftDataHandler;
use rnacos::raft::filestore::raftsnapshot::{SnapshotReader, SnapshotWriterActor, SnapshotWriterRequest};
use rnacos::starter::{build_share_data, config_factory};
use serde::{Deserialize, Serialize};
use std::cell::RefCell;
use std::collections::{BTreeMap, BTreeSet, HashMap};
use std::sync::Arc as Rc;
use std::sync::Arc;
use std::time::Duration;
use tokio::sim::{self, Rng};

#[derive(Clone, Debug, Serialize, Deserialize)]
pub struct NodeCfg {
    pub snapshot_log_size: u64,
    pub auth: bool,
    pub cluster_token: String,
    pub naming_health_timeout: u64,
    pub naming_instance_timeout: u64,
    pub openapi_login_timeout: i32,
    pub console_login_timeout: i32,
}

impl Default for NodeCfg {
    fn default() -> Self {
        NodeCfg {
            snapshot_log_size: 10_000,
            auth: false,
            cluster_token: String::new(),
            naming_health_timeout: 15,
            naming_instance_timeout: 30,
            openapi_login_timeout: 3600,
            console_login_timeout: 86400,
        }
    }
}

pub struct NodeH {
    pub id: u64,
    pub epoch: u64,
    pub addr: String,
    pub app: Arc<AppShareData>,
    pub invoker: Arc<InvokerHandler>,
}

pub fn node_name(id: u64) -> String {
    format!("n{}", id)
}
pub fn node_addr(id: u64) -> String {
    format!("n{}:9848", id)
}

#[derive(Clone, Debug, Serialize, Deserialize)]
pub struct NetCfg {
    pub lat_min_us: u64,
    pub lat_max_us: u64,
    pub p_drop_req: f64,
    pub p_drop_resp: f64,
    pub p_dup: f64,
    /// how long the caller waits before a lost request / response surfaces as an error
    pub timeout_ms: u64,
    /// occasional long delay
    pub p_slow: f64,
    pub slow_max_ms: u64,
    /// when non-empty, loss / duplication / long delays hit only messages whose payload type contains this text
    #[serde(default)]
    pub faults_only: String,
}

impl Default for NetCfg {
    fn default() -> Self {
        NetCfg { lat_min_us: 200, lat_max_us: 3_000, p_drop_req: 0.0, p_drop_resp: 0.0, p_dup: 0.0, timeout_ms: 3_000, p_slow: 0.0, slow_max_ms: 0, faults_only: String::new() }
    }
}

pub struct Net {
    pub nodes: HashMap<String, Rc<NodeH>>,
    pub cfg: NetCfg,
    /// blocked directed pairs (src id, dst id)
    pub blocked: BTreeSet<(u64, u64)>,
    pub rng: Rng,
    pub log_msgs: bool,
}

thread_local! {
    pub static NET: RefCell<Net> = RefCell::new(Net { nodes: HashMap::new(), cfg: NetCfg::default(), blocked: BTreeSet::new(), rng: Rng::new(1), log_msgs: true });
}

pub fn net_reset(seed: u64, cfg: NetCfg) {
    NET.with(|n| {
        let mut n = n.borrow_mut();
        n.nodes.clear();
        n.blocked.clear();
        n.cfg = cfg;
        n.rng = Rng::derive(seed, "net", 0);
        n.log_msgs = true;
    });
    MSG_TRIGGER.with(|t| *t.borrow_mut() = None);
    install_transport();
}

pub fn net_set_cfg(cfg: NetCfg) {
    NET.with(|n| n.borrow_mut().cfg = cfg);
}

pub fn partition(a: u64, b: u64, both: bool) {
    NET.with(|n| {
        let mut n = n.borrow_mut();
        n.blocked.insert((a, b));
        if both {
            n.blocked.insert((b, a));
        }
    });
    sim::event(&format!("net partition {}->{} both={}", a, b, both));
    sim::count("net.partitions", 1);
}

pub fn isolate(id: u64, all: &[u64]) {
    for o in all {
        if *o != id {
            partition(id, *o, true);
        }
    }
}

pub fn heal_all() {
    NET.with(|n| n.borrow_mut().blocked.clear());
    sim::event("net heal");
}

pub fn node(id: u64) -> Option<Rc<NodeH>> {
    NET.with(|n| n.borrow().nodes.get(&node_addr(id)).cloned())
}

pub fn live_nodes() -> Vec<Rc<NodeH>> {
    NET.with(|n| {
        let mut v: Vec<Rc<NodeH>> = n.borrow().nodes.values().cloned().collect();
        v.sort_by_key(|x| x.id);
        v
    })
}

fn epoch_of_dir(dir: &str) -> u64 {
    let (_, _, e) = tokio::fs::canon(std::path::Path::new(dir));
    e
}

thread_local! {
    static SNAPSHOT_MSGS: std::cell::RefCell<Vec<u64>> = const { std::cell::RefCell::new(Vec::new()) };
    static DISTRO_MSGS: std::cell::RefCell<Vec<(u64, u64, Vec<String>, bool)>> = const { std::cell::RefCell::new(Vec::new()) };
}

/// (source node, simulated time in us) of every message that carries instances of the sender's clients (the 12 s client
/// report SyncDistroClientInstances, update batches, single updates, snapshots) sent in this run
pub fn naming_distro_msg_times() -> Vec<(u64, u64, Vec<String>, bool)> {
    DISTRO_MSGS.with(|v| v.borrow().clone())
}

/// simulated times (us) at which naming snapshot messages were sent in this run
pub fn naming_snapshot_msg_times() -> Vec<u64> {
    SNAPSHOT_MSGS.with(|v| v.borrow().clone())
}

/// fault placed on a message: the `nth` message of a type delivered to node `dst` kills that node, either right before
/// the node handles it or right after it has handled it (the sender sees a reset connection either way)
#[derive(Clone, Debug)]
pub struct MsgTrigger {
    pub ptype: String,
    pub dst: u64,
    pub nth: u64,
    pub after: bool,
    pub seen: u64,
    pub fired: bool,
    /// files of the killed node (name, completed length) at the instant of the kill
    pub files_at_kill: Vec<(String, u64)>,
}

thread_local! {
    static MSG_TRIGGER: RefCell<Option<MsgTrigger>> = RefCell::new(None);
}

pub fn set_msg_trigger(ptype: &str, dst: u64, nth: u64, after: bool) {
    MSG_TRIGGER.with(|t| *t.borrow_mut() = Some(MsgTrigger { ptype: ptype.to_string(), dst, nth, after, seen: 0, fired: false, files_at_kill: vec![] }));
}

pub fn msg_trigger_files_at_kill() -> Vec<(String, u64)> {
    MSG_TRIGGER.with(|t| t.borrow().as_ref().map(|t| t.files_at_kill.clone()).unwrap_or_default())
}

fn msg_trigger_note_files(dst: u64) {
    let files = tokio::fs::list_files(&format!("{}/{}/", crate::core::run_root(sim::seed()), node_name(dst)));
    MSG_TRIGGER.with(|t| {
        if let Some(t) = t.borrow_mut().as_mut() {
            t.files_at_kill = files.iter().map(|(n, l)| (n.rsplit('/').next().unwrap_or("").to_string(), *l as u64)).collect();
        }
    });
}

pub fn msg_trigger_fired() -> bool {
    MSG_TRIGGER.with(|t| t.borrow().as_ref().map(|t| t.fired).unwrap_or(false))
}

/// 0 = no trigger on this message, 1 = kill before handling, 2 = kill after handling
fn msg_trigger_hit(ptype: &str, dst: u64) -> u8 {
    MSG_TRIGGER.with(|t| {
        let mut t = t.borrow_mut();
        if let Some(t) = t.as_mut() {
            if !t.fired && t.dst == dst && ptype == t.ptype {
                t.seen += 1;
                if t.seen == t.nth {
                    t.fired = true;
                    return if t.after { 2 } else { 1 };
                }
            }
        }
        0
    })
}

fn payload_type(p: &Payload) -> String {
    p.metadata.as_ref().map(|m| m.r#type.clone()).unwrap_or_default()
}

fn install_transport() {
    rnacos::verif_hook::set_transport(Box::new(|src_cfg: Arc<AppSysConfig>, addr: Arc<String>, payload: Payload| {
        Box::pin(async move {
            let src = src_cfg.raft_node_id;
            let src_epoch = epoch_of_dir(&src_cfg.local_db_dir);
            if tokio::fs::current_epoch(&node_name(src)) != src_epoch {
                // a dead incarnation: fenced
                return Err(anyhow::anyhow!("sim: sender is dead"));
            }
            let ptype = payload_type(&payload);
            // naming sync messages: remember when full-state messages (snapshot pull answers / pushes) travel
            if ptype == "NamingRouteRequest" {
                if let Some(sub) = payload.metadata.as_ref().and_then(|m| m.headers.get("sub_name")) {
                    // (the periodic client report and every message that carries instances of the sender's clients)
                    // (messages that carry instances of the sender's clients and overwrite what the receiver holds; the periodic
                    // client report carries keys only - a receiver acts on it only for keys it does not have under that client)
                    // (the client report is recorded as well, marked: under injected delays a receiver that fetches what the report
                    // names can overwrite a newer registration with the fetched copy)
                    let is_report = sub == "SyncDistroClientInstances";
                    if sub == "SyncBatchInstances" || sub == "SyncUpdateInstance" || sub == "Snapshot" || is_report {
                        // the addresses (10.x.y.z) the message mentions: strings and byte arrays of its JSON body
                        fn collect(v: &serde_json::Value, out: &mut Vec<u8>) {
                            match v {
                                serde_json::Value::String(s) => {
                                    out.extend_from_slice(s.as_bytes());
                                    out.push(b' ');
                                }
                                serde_json::Value::Array(a) => {
                                    if !a.is_empty() && a.iter().all(|x| x.as_u64().map(|n| n < 256).unwrap_or(false)) {
                                        out.extend(a.iter().map(|x| x.as_u64().unwrap_or(0) as u8));
                                        out.push(b' ');
                                    } else {
                                        a.iter().for_each(|x| collect(x, out));
                                    }
                                }
                                serde_json::Value::Object(m) => m.iter().for_each(|(k, x)| {
                                    out.extend_from_slice(k.as_bytes());
                                    out.push(b' ');
                                    collect(x, out)
                                }),
                                _ => {}
                            }
                        }
                        let mut blob = vec![];
                        if let Some(b) = payload.body.as_ref() {
                            if let Ok(j) = serde_json::from_slice::<serde_json::Value>(&b.value) {
                                collect(&j, &mut blob);
                            }
                        }
                        let text = String::from_utf8_lossy(&blob).to_string();
                        let mut ips: Vec<String> = vec![];
                        let bytes = text.as_bytes();
                        let mut i = 0;
                        while i + 3 < bytes.len() {
                            if &bytes[i..i + 3] == b"10." {
                                let end = (i..bytes.len()).find(|j| !(bytes[*j].is_ascii_digit() || bytes[*j] == b'.')).unwrap_or(bytes.len());
                                let ip = text[i..end].trim_end_matches('.').to_string();
                                if ip.matches('.').count() == 3 && !ips.contains(&ip) {
                                    ips.push(ip);
                                }
                                i = end;
                            } else {
                                i += 1;
                            }
                        }
                        DISTRO_MSGS.with(|v| v.borrow_mut().push((src, sim::now_us(), ips, is_report)));
                    }
                    if sub == "Snapshot" {
                        SNAPSHOT_MSGS.with(|v| v.borrow_mut().push(sim::now_us()));
                        sim::count("net.naming_snapshot_msgs", 1);
                    }
                }
            }
            let bh = sim::fnv64(&payload.body.as_ref().map(|b| b.value.clone()).unwrap_or_default()) & 0xffff_ffff;
            // all random draws for this message up front
            let (target, blocked, lat1, lat2, drop_req, drop_resp, dup, timeout_ms, dst_id) = NET.with(|n| {
                let mut n = n.borrow_mut();
                let target = n.nodes.get(addr.as_str()).cloned();
                let dst_id: u64 = addr.trim_start_matches('n').split(':').next().and_then(|s| s.parse().ok()).unwrap_or(0);
                let blocked = n.blocked.contains(&(src, dst_id));
                let c = n.cfg.clone();
                let mut lat = |rng: &mut Rng| {
                    let mut l = rng.range(c.lat_min_us, c.lat_max_us.max(c.lat_min_us));
                    if c.p_slow > 0.0 && rng.chance(c.p_slow) && (c.faults_only.is_empty() || ptype.contains(c.faults_only.as_str())) {
                        l += rng.range(1, c.slow_max_ms.max(1)) * 1000;
                        sim::count("net.slow", 1);
                    }
                    l
                };
                let lat1 = lat(&mut n.rng);
                let lat2 = lat(&mut n.rng);
                let hit = c.faults_only.is_empty() || ptype.contains(c.faults_only.as_str());
                let drop_req = n.rng.chance(c.p_drop_req) && hit;
                let drop_resp = n.rng.chance(c.p_drop_resp) && hit;
                // a unary gRPC call over TCP is not delivered twice; duplication models re-sent protocol messages
                // (raft RPCs, naming sync), whose handlers must be idempotent - not a forwarded client write, which the
                // product never re-sends
                let dup = n.rng.chance(c.p_dup) && hit && ptype != "RaftRouteRequest";
                (target, blocked, lat1, lat2, drop_req, drop_resp, dup, c.timeout_ms, dst_id)
            });
            sim::count("net.sent", 1);
            let log = NET.with(|n| n.borrow().log_msgs);
            if log {
                sim::event(&format!("msg {}->{} {} b={:x}", src, dst_id, ptype, bh));
            }
            let target = match target {
                Some(t) => t,
                None => {
                    tokio::time::sleep(Duration::from_micros(lat1)).await;
                    sim::count("net.refused", 1);
                    return Err(anyhow::anyhow!("sim: connection refused {}", addr));
                }
            };
            if blocked {
                tokio::time::sleep(Duration::from_millis(timeout_ms)).await;
                sim::count("net.blocked", 1);
                return Err(anyhow::anyhow!("sim: partitioned {}->{}", src, dst_id));
            }
            if drop_req {
                sim::count("net.drop_req", 1);
                tokio::time::sleep(Duration::from_millis(timeout_ms)).await;
                return Err(anyhow::anyhow!("sim: request lost"));
            }
            tokio::time::sleep(Duration::from_micros(lat1)).await;
            // the target may have died or been cut off while the message was in flight
            let alive = tokio::fs::current_epoch(&node_name(target.id)) == target.epoch;
            let blocked_now = NET.with(|n| n.borrow().blocked.contains(&(src, dst_id)));
            if !alive || blocked_now {
                tokio::time::sleep(Duration::from_millis(timeout_ms)).await;
                sim::count("net.lost_in_flight", 1);
                return Err(anyhow::anyhow!("sim: connection reset"));
            }
            if dup {
                sim::count("net.dup", 1);
                let t2 = target.clone();
                let p2 = payload.clone();
                let cfg2 = src_cfg.clone();
                // (the sender may be a plain tokio task, e.g. the raft core: no LocalSet there)
                tokio::spawn(async move {
                    tokio::time::sleep(Duration::from_micros(lat2 * 3 + 1000)).await;
                    if tokio::fs::current_epoch(&node_name(t2.id)) == t2.epoch {
                        let _ = deliver(&t2, p2, &cfg2).await;
                    }
                });
            }
            if ptype == "RaftSnapshotRequest" {
                sim::count(&format!("net.snapshot_chunks_to_n{}", dst_id), 1);
            }
            let trig = msg_trigger_hit(&ptype, dst_id);
            if trig == 1 {
                sim::event(&format!("fault: node {} killed right before handling {} #{}", dst_id, ptype, MSG_TRIGGER.with(|t| t.borrow().as_ref().map(|t| t.nth).unwrap_or(0))));
                sim::count("fault.kill_on_message", 1);
                msg_trigger_note_files(dst_id);
                kill_node_now(dst_id, false);
                tokio::time::sleep(Duration::from_millis(timeout_ms)).await;
                return Err(anyhow::anyhow!("sim: connection reset"));
            }
            let r = deliver(&target, payload, &src_cfg).await;
            if trig == 2 {
                sim::event(&format!("fault: node {} killed right after handling {} #{}", dst_id, ptype, MSG_TRIGGER.with(|t| t.borrow().as_ref().map(|t| t.nth).unwrap_or(0))));
                sim::count("fault.kill_on_message", 1);
                msg_trigger_note_files(dst_id);
                kill_node_now(dst_id, false);
                tokio::time::sleep(Duration::from_millis(timeout_ms)).await;
                return Err(anyhow::anyhow!("sim: connection reset"));
            }
            if drop_resp {
                sim::count("net.drop_resp", 1);
                tokio::time::sleep(Duration::from_millis(timeout_ms)).await;
                return Err(anyhow::anyhow!("sim: response lost"));
            }
            tokio::time::sleep(Duration::from_micros(lat2)).await;
            let back_blocked = NET.with(|n| n.borrow().blocked.contains(&(dst_id, src)));
            if back_blocked {
                tokio::time::sleep(Duration::from_millis(timeout_ms)).await;
                sim::count("net.blocked", 1);
                return Err(anyhow::anyhow!("sim: partitioned (response) {}->{}", dst_id, src));
            }
            sim::count("net.delivered", 1);
            r
        })
    }));
}

/// What `RequestServerImpl::request` does around `InvokerHandler::handle` for a cluster-internal
/// request (stub of ~20 lines; tonic / h2 / TCP are absent): connection id, client ip, and the
/// cluster-token check of `fill_token_session`.
async fn deliver(target: &Rc<NodeH>, payload: Payload, src_cfg: &Arc<AppSysConfig>) -> anyhow::Result<Payload> {
    let mut meta = RequestMeta {
        connection_id: Arc::new(format!("{}_10.0.0.{}:5{:04}", target.id, src_cfg.raft_node_id, src_cfg.raft_node_id)),
        client_ip: format!("10.0.0.{}", src_cfg.raft_node_id),
        ..Default::default()
    };
    let cfg = &target.app.sys_config;
    if !cfg.cluster_token.is_empty() {
        if let Some(Some(token)) = payload.metadata.as_ref().map(|e| e.headers.get("ClusterToken")) {
            meta.cluster_token_is_valid = token == cfg.cluster_token.as_ref();
        }
    }
    match target.invoker.handle(payload, meta).await {
        Ok(res) => Ok(res.payload),
        Err(e) => Ok(rnacos::grpc::PayloadUtils::build_error_payload(500u16, e.to_string())),
    }
}

pub fn build_sys_config(root: &str, id: u64, auto_init: bool, join: Option<u64>, cfg: &NodeCfg) -> AppSysConfig {
    let epoch = tokio::fs::current_epoch(&node_name(id));
    let mut c = AppSysConfig::init_from_env();
    c.local_db_dir = format!("{}/{}.e{}", root, node_name(id), epoch);
    c.config_db_file = format!("{}/config.db", c.local_db_dir);
    c.raft_node_id = id;
    c.raft_node_addr = node_addr(id);
    c.raft_auto_init = auto_init;
    c.raft_join_addr = join.map(node_addr).unwrap_or_default();
    c.raft_snapshot_log_size = cfg.snapshot_log_size;
    c.metrics_enable = false;
    c.metrics_log_enable = false;
    c.openapi_enable_auth = cfg.auth;
    c.cluster_token = Arc::new(cfg.cluster_token.clone());
    c.naming_health_timeout = cfg.naming_health_timeout;
    c.naming_instance_timeout = cfg.naming_instance_timeout;
    // persistent instances are health-probed over a real TCP connection: outside the seams, switched off
    c.naming_perpetual_instance_probe_interval = 2_000_000_000;
    c.openapi_login_timeout = cfg.openapi_login_timeout;
    c.console_login_timeout = cfg.console_login_timeout;
    c.console_captcha_enable = false;
    c.ldap_enable = false;
    c.oauth2_enable = false;
    c.naming_instance_metadata_persistence_enable = false;
    c.gmt_fixed_offset_hours = Some(0);
    c
}

/// Start (or restart) node `id` on its simulated disk.
pub async fn start_node(root: &str, id: u64, auto_init: bool, join: Option<u64>, cfg: &NodeCfg) -> anyhow::Result<Rc<NodeH>> {
    let sc = Arc::new(build_sys_config(root, id, auto_init, join, cfg));
    let epoch = tokio::fs::current_epoch(&node_name(id));
    sim::event(&format!("node start id={} epoch={} init={} join={:?}", id, epoch, auto_init, join));
    sim::count("node.starts", 1);
    let fd = config_factory(sc.clone()).await?;
    let app = build_share_data(fd)?;
    let mut invoker = InvokerHandler::new(app.clone());
    invoker.add_config_handler(&app);
    invoker.add_naming_handler(&app);
    invoker.add_raft_handler(&app);
    let n = Rc::new(NodeH { id, epoch, addr: node_addr(id), app, invoker: Arc::new(invoker) });
    NET.with(|net| net.borrow_mut().nodes.insert(node_addr(id), n.clone()));
    if LEADER_CHANGES.with(|l| l.borrow().is_some()) {
        // recorder of this incarnation's raft metrics: every change of (leader, term, state) with the applied index seen
        // before it and the last log index seen before / at it
        let mut rx = n.app.raft.metrics();
        actix_rt::spawn(async move {
            let mut prev = rx.borrow().clone();
            while rx.changed().await.is_ok() {
                let cur = rx.borrow().clone();
                if cur.current_leader != prev.current_leader || cur.current_term != prev.current_term || cur.state != prev.state {
                    LEADER_CHANGES.with(|l| {
                        if let Some(v) = l.borrow_mut().as_mut() {
                            v.push(LeaderChange { node: id, applied_before: prev.last_applied, log_before: prev.last_log_index, log_at: cur.last_log_index.max(prev.last_log_index), term: cur.current_term });
                        }
                    });
                }
                prev = cur;
            }
        });
    }
    Ok(n)
}

/// one observed change of (leader, term, state) in a node's raft metrics
#[derive(Clone, Debug)]
pub struct LeaderChange {
    pub node: u64,
    pub applied_before: u64,
    pub log_before: u64,
    pub log_at: u64,
    pub term: u64,
}

thread_local! {
    static LEADER_CHANGES: RefCell<Option<Vec<LeaderChange>>> = RefCell::new(None);
}

/// switch the recording of leader changes on (for nodes started afterwards)
pub fn record_leader_changes() {
    LEADER_CHANGES.with(|l| *l.borrow_mut() = Some(vec![]));
}

pub fn leader_changes() -> Vec<LeaderChange> {
    LEADER_CHANGES.with(|l| l.borrow().clone().unwrap_or_default())
}

/// kill -9: only completed disk mutations survive; the incarnation is fenced at every seam.
pub async fn kill_node(id: u64) {
    kill_node_now(id, true);
}

/// the same without an await point; `local` = called from a task of the actix LocalSet (the transport may run inside a
/// plain tokio task such as async-raft's replication stream, where spawn_local would panic)
pub fn kill_node_now(id: u64, local: bool) {
    let n = NET.with(|net| net.borrow_mut().nodes.remove(&node_addr(id)));
    tokio::fs::crash(&node_name(id));
    sim::event(&format!("node kill id={}", id));
    sim::count("node.kills", 1);
    if let Some(n) = n {
        // best effort: stop the raft core task of the dead incarnation (it is fenced anyway)
        let raft = n.app.raft.clone();
        if local {
            actix_rt::spawn(async move {
                let _ = tokio::time::timeout(Duration::from_millis(50), raft.shutdown()).await;
            });
        } else {
            tokio::spawn(async move {
                let _ = tokio::time::timeout(Duration::from_millis(50), raft.shutdown()).await;
            });
        }
    }
}

/// clean stop: let everything issued reach the disk, then fence
pub async fn stop_node(id: u64) {
    settle().await;
    kill_node(id).await;
}

pub async fn wait_leader(n: &NodeH, ms: u64) -> Option<u64> {
    let deadline = tokio::time::Instant::now() + Duration::from_millis(ms);
    loop {
        let m = n.app.raft.metrics().borrow().clone();
        if let Some(l) = m.current_leader {
            if m.current_term > 0 {
                return Some(l);
            }
        }
        if tokio::time::Instant::now() >= deadline {
            return None;
        }
        tokio::time::sleep(Duration::from_millis(100)).await;
    }
}

pub fn metrics(n: &NodeH) -> async_raft_ext::RaftMetrics {
    n.app.raft.metrics().borrow().clone()
}

// ---------------------------------------------------------------------------
// generic observation of the replicated state: the records the real
// RaftDataHandler::build_snapshot produces, as a sorted multiset

pub async fn snapshot_records(n: &NodeH, tag: &str) -> anyhow::Result<Vec<(String, Vec<u8>, Vec<u8>)>> {
    let handler: Arc<RaftDataHandler> = n.app.factory_data.get_bean().ok_or_else(|| anyhow::anyhow!("no RaftDataHandler bean"))?;
    let path = format!("{}/scratch/{}.e{}/obs_{}_{}", run_root(sim::seed()), node_name(n.id), n.epoch, tag, sim::now_us());
    let header = SnapshotHeaderDto { last_index: 1, last_term: 1, member: vec![1], member_after_consensus: vec![], node_addrs: HashMap::new() };
    let writer = SnapshotWriterActor::new(Arc::new(path.clone()), header).start();
    handler.build_snapshot(writer.clone()).await?;
    writer.send(SnapshotWriterRequest::Flush).await??;
    settle().await;
    let mut reader = SnapshotReader::init(&path).await?;
    let mut out = vec![];
    while let Some(rec) = reader.read_record().await? {
        let rec: SnapshotRecordDto = rec;
        // bookkeeping marker written by the node itself some seconds after a start (namespace migration
        // from the old store); not data anybody is served
        if rec.key == b"__already_sync" {
            continue;
        }
        // a blank config type / description is observed as an absent one (see wl::cfg_get): normalise the raw config record
        let mut value = rec.value;
        if rec.tree.as_str().contains("CONFIG") {
            if let Ok(mut d) = rnacos::config::model::ConfigValueDO::from_bytes(&value) {
                let blank = |o: &Option<String>| o.as_ref().map(|s| s.is_empty()).unwrap_or(false);
                if blank(&d.config_type) || blank(&d.desc) {
                    if blank(&d.config_type) {
                        d.config_type = None;
                    }
                    if blank(&d.desc) {
                        d.desc = None;
                    }
                    if let Ok(v) = d.to_bytes() {
                        value = v;
                    }
                }
            }
        }
        out.push((rec.tree.as_ref().clone(), rec.key, value));
    }
    out.sort();
    tokio::fs::remove_file(&path).await.ok();
    Ok(out)
}

pub fn records_digest(recs: &[(String, Vec<u8>, Vec<u8>)]) -> u64 {
    let mut h = 0xcbf2_9ce4_8422_2325u64;
    for (t, k, v) in recs {
        h = (h ^ sim::fnv64(t.as_bytes())).wrapping_mul(0x0000_0100_0000_01b3);
        h = (h ^ sim::fnv64(k)).wrapping_mul(0x0000_0100_0000_01b3);
        h = (h ^ sim::fnv64(v)).wrapping_mul(0x0000_0100_0000_01b3);
    }
    h
}

/// human-readable difference between two record multisets (first few entries)
pub fn records_diff(a: &[(String, Vec<u8>, Vec<u8>)], b: &[(String, Vec<u8>, Vec<u8>)]) -> String {
    let ma: BTreeMap<(String, Vec<u8>), Vec<u8>> = a.iter().map(|(t, k, v)| ((t.clone(), k.clone()), v.clone())).collect();
    let mb: BTreeMap<(String, Vec<u8>), Vec<u8>> = b.iter().map(|(t, k, v)| ((t.clone(), k.clone()), v.clone())).collect();
    let mut out = vec![];
    for (k, v) in &ma {
        match mb.get(k) {
            None => out.push(format!("only in first: {}/{}", k.0, String::from_utf8_lossy(&k.1))),
            Some(w) if w != v => out.push(format!("differs: {}/{} ({} vs {} bytes: {:?} vs {:?})", k.0, String::from_utf8_lossy(&k.1), v.len(), w.len(), String::from_utf8_lossy(&v[..v.len().min(120)]), String::from_utf8_lossy(&w[..w.len().min(120)]))),
            _ => {}
        }
        if out.len() >= 4 {
            break;
        }
    }
    for k in mb.keys() {
        if !ma.contains_key(k) {
            out.push(format!("only in second: {}/{}", k.0, String::from_utf8_lossy(&k.1)));
            if out.len() >= 6 {
                break;
            }
        }
    }
    if a.len() != b.len() {
        out.push(format!("{} vs {} records", a.len(), b.len()));
    }
    out.join("; ")
}

// ---------------------------------------------------------------------------
// async-raft answers a follower that needs a snapshot in a tight loop while the leader's snapshot
// policy is not met; no simulated time passes during that loop. The tap (repo hook H7) lets a
// simulated client notice it and keep writing, which is what ends the loop in a real deployment.

thread_local! {
    static SPIN: RefCell<(u64, u64)> = const { RefCell::new((0, 0)) };
    static SPIN_NOTIFY: Rc<tokio::sync::Notify> = Rc::new(tokio::sync::Notify::new());
    static SPIN_STUCK: Rc<tokio::sync::Notify> = Rc::new(tokio::sync::Notify::new());
}

pub fn install_spin_tap() {
    rnacos::verif_hook::set_tap(Box::new(|name: &str, _detail: String| {
        if name != "get_current_snapshot" {
            return;
        }
        let now = sim::now_us();
        let fire = SPIN.with(|s| {
            let mut s = s.borrow_mut();
            if s.0 == now {
                s.1 += 1;
            } else {
                *s = (now, 0);
            }
            s.1 > 0 && s.1 % 100 == 0
        });
        if fire {
            sim::count("probe.needs_snapshot_loop_detected", 1);
            SPIN_NOTIFY.with(|n| n.notify_one());
        }
        // 30 000 calls at one simulated instant: the writes that usually end the loop cannot commit either
        if SPIN.with(|s| s.borrow().1) == 30_000 {
            SPIN_STUCK.with(|n| n.notify_one());
        }
    }));
}

/// sleep `ms` of simulated time, or return early when the needs-snapshot loop is running
pub async fn sleep_or_spin(ms: u64) {
    let n = SPIN_NOTIFY.with(|n| n.clone());
    tokio::select! {
        _ = tokio::time::sleep(Duration::from_millis(ms)) => {}
        _ = n.notified() => {}
    }
}

/// resolves when the needs-snapshot loop has run 30 000 rounds at one simulated instant (nothing ends it)
pub async fn spin_stuck() {
    let n = SPIN_STUCK.with(|n| n.clone());
    n.notified().await;
}

/// resolves when the needs-snapshot loop is detected
pub async fn wait_spin() {
    let n = SPIN_NOTIFY.with(|n| n.clone());
    n.notified().await;
}
