//! rnsim — deterministic simulator for r-nacos. See /verif/DESIGN.md.
mod checks_l;
mod checks_n;
mod checks_nm;
mod checks_nc;
mod checks_auth;
mod core;
#[macro_use]
mod http;
mod interpose;
mod rig_c;
mod rig_l;
mod rig_n;
mod wl;

use crate::core::*;
use serde_json::{json, Value};
use std::io::Write;

fn registry() -> Vec<&'static dyn Check> {
    vec![&checks_l::C02, &checks_l::C03, &checks_l::C05, &checks_l::C04, &rig_c::C20, &checks_n::C01, &checks_n::C07, &checks_n::C06, &checks_n::C08, &checks_n::C19, &checks_n::C09, &checks_n::C10, &checks_nm::C11, &checks_nm::C12, &checks_nm::C13, &checks_nc::C14, &checks_nc::C15, &checks_auth::C16, &checks_auth::C17]
}

fn find(id: &str) -> &'static dyn Check {
    for c in registry() {
        if c.id() == id {
            return c;
        }
    }
    eprintln!("unknown check {}", id);
    std::process::exit(2);
}

fn arg_val(args: &[String], name: &str) -> Option<String> {
    args.iter().position(|a| a == name).and_then(|i| args.get(i + 1).cloned())
}

fn main() {
    let args: Vec<String> = std::env::args().collect();
    if args.len() < 2 {
        eprintln!("usage: rnsim run|replay|shrink|gen|evlog ...");
        std::process::exit(2);
    }
    install_panic_hook();
    if std::env::var("RNSIM_TRACE").is_ok() {
        tokio::sim::TRACE.store(true, std::sync::atomic::Ordering::Relaxed);
    }
    if std::env::var("RNSIM_LOG").is_ok() {
        env_logger::init();
    }
    match args[1].as_str() {
        // rnsim run <check> --from A --count N --tier quick [--wall-ms M] [--samples K]
        "run" => {
            let check = find(&args[2]);
            let from: u64 = arg_val(&args, "--from").and_then(|v| v.parse().ok()).unwrap_or(1);
            let count: u64 = arg_val(&args, "--count").and_then(|v| v.parse().ok()).unwrap_or(1);
            let stride: u64 = arg_val(&args, "--stride").and_then(|v| v.parse().ok()).unwrap_or(1);
            let wall_ms: u64 = arg_val(&args, "--wall-ms").and_then(|v| v.parse().ok()).unwrap_or(u64::MAX / 2_000_000);
            let samples: u64 = arg_val(&args, "--samples").and_then(|v| v.parse().ok()).unwrap_or(1);
            let tier = if arg_val(&args, "--tier").as_deref() == Some("thorough") { Tier::Thorough } else { Tier::Quick };
            let max_viol: u64 = if args.iter().any(|a| a == "--keep-going") { u64::MAX } else { arg_val(&args, "--max-violations").and_then(|v| v.parse().ok()).unwrap_or(1) };
            let mut n_viol = 0u64;
            let mut finding_sample_done = false;
            let mut finding_clauses_seen: std::collections::BTreeSet<String> = Default::default();
            let t0 = interpose::real_ns();
            let out = std::io::stdout();
            let mut i = 0u64;
            while i < count {
                let seed = from + i * stride;
                let script = check.generate(seed, tier);
                let mut o = run_script_isolated(check, script.clone(), false);
                // keep the script of the first run that reports each finding clause (it becomes that finding's replay file)
                let new_clause = o.findings.iter().any(|f| !finding_clauses_seen.contains(&f.clause));
                if o.ok && (i < samples || new_clause) {
                    for f in &o.findings {
                        finding_clauses_seen.insert(f.clause.clone());
                    }
                    finding_sample_done = true;
                    o.script = Some(script);
                }
                let line = serde_json::to_string(&o).unwrap();
                {
                    let mut l = out.lock();
                    writeln!(l, "{}", line).ok();
                    l.flush().ok();
                }
                if !o.ok {
                    n_viol += 1;
                    if n_viol >= max_viol {
                        break;
                    }
                }
                i += 1;
                if (interpose::real_ns() - t0) / 1_000_000 > wall_ms {
                    break;
                }
            }
        }
        // rnsim gen <check> <seed> [--tier t]
        "gen" => {
            let check = find(&args[2]);
            let seed: u64 = args[3].parse().unwrap();
            let tier = if arg_val(&args, "--tier").as_deref() == Some("thorough") { Tier::Thorough } else { Tier::Quick };
            println!("{}", serde_json::to_string_pretty(&check.generate(seed, tier)).unwrap());
        }
        // rnsim replay <file> [--full-log]
        "replay" => {
            let txt = std::fs::read_to_string(&args[2]).expect("read replay file");
            let v: Value = serde_json::from_str(&txt).expect("parse replay file");
            let script = if v.get("script").is_some() { v["script"].clone() } else { v.clone() };
            let check = find(script["check"].as_str().unwrap_or(""));
            let full = args.iter().any(|a| a == "--full-log");
            let o = run_script(check, script, full);
            println!("{}", serde_json::to_string(&o).unwrap());
            let expect_clause = v.get("clause").and_then(|c| c.as_str());
            let expect_hash = v.get("ev_hash").and_then(|c| c.as_str());
            if o.ok {
                std::process::exit(0);
            }
            if let Some(c) = expect_clause {
                if o.clause.as_deref() != Some(c) {
                    eprintln!("replay: failed on a different clause: {:?} (expected {})", o.clause, c);
                    std::process::exit(3);
                }
            }
            if let Some(h) = expect_hash {
                if !h.is_empty() && o.ev_hash != h {
                    eprintln!("replay: same clause but different event-log hash {} (expected {})", o.ev_hash, h);
                    std::process::exit(4);
                }
            }
            std::process::exit(1);
        }
        // rnsim shrink <file> --out <file> [--budget N]
        "shrink" => {
            let txt = std::fs::read_to_string(&args[2]).expect("read file");
            let v: Value = serde_json::from_str(&txt).expect("parse file");
            let script = if v.get("script").is_some() { v["script"].clone() } else { v.clone() };
            let check = find(script["check"].as_str().unwrap_or(""));
            let budget: usize = arg_val(&args, "--budget").and_then(|v| v.parse().ok()).unwrap_or(300);
            let first = run_script_isolated(check, script.clone(), false);
            if first.ok {
                eprintln!("shrink: script does not fail");
                std::process::exit(2);
            }
            let clause = first.clause.clone().unwrap();
            let (best, runs) = shrink(check, script, &clause, budget);
            let fin = run_script_isolated(check, best.clone(), false);
            let out = json!({
                "property": check.id(),
                "clause": fin.clause,
                "msg": fin.msg,
                "seed": fin.seed,
                "ev_hash": fin.ev_hash,
                "shrink_runs": runs,
                "script": best,
                "ev_tail": fin.ev_tail,
                "panic": fin.panic,
            });
            let path = arg_val(&args, "--out").unwrap_or_else(|| "/dev/stdout".to_string());
            std::fs::write(&path, serde_json::to_string_pretty(&out).unwrap()).expect("write");
        }
        // rnsim evlog <check> <seed> [--tier t]: full event log, for the determinism self-test
        "evlog" => {
            let check = find(&args[2]);
            let seed: u64 = args[3].parse().unwrap();
            let tier = if arg_val(&args, "--tier").as_deref() == Some("thorough") { Tier::Thorough } else { Tier::Quick };
            let script = check.generate(seed, tier);
            let o = run_script(check, script, true);
            for l in o.ev_full.clone().unwrap_or_default() {
                println!("{}", l);
            }
            println!("# ok={} clause={:?} ev_hash={} digest={}", o.ok, o.clause, o.ev_hash, o.digest);
        }
        _ => {
            eprintln!("unknown command");
            std::process::exit(2);
        }
    }
}
