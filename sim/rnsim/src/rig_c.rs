//! Rig-C (C20): the length-prefixed record codecs over a simulated reader.
//! Chunking of reads is the schedule: the same byte stream must decode to the same
//! records however it is split.
use crate::core::*;
use crate::{vensure, vfail};
use quick_protobuf::{BytesReader, Writer};
use rnacos::common::protobuf_utils::{inner_sizeof_varint, read_varint64, write_varint64, FileMessageReader, MessageBufReader};
use rnacos::raft::filestore::model::{LogRecordDto, SnapshotHeaderDto, SnapshotRecordDto};
use rnacos::raft::filestore::raftsnapshot::SnapshotReader;
use serde::{Deserialize, Serialize};
use serde_json::{json, Value};
use std::collections::HashMap;
use std::sync::Arc;
use tokio::io::AsyncReadExt;
use tokio::sim::{self, Rng};

#[derive(Serialize, Deserialize, Clone, Debug)]
pub struct CCfg {
    /// buf_scan | buf_stream | file_next | file_pos | file_chunks | snapshot
    pub mode: String,
    pub p_short_read: f64,
    /// chunk style for the buf modes: 0 uniform small, 1 around 1024, 2 ends on record boundaries, 3 byte-by-byte, 4 full 1024
    pub chunk_style: u8,
    /// stale non-zero bytes after the terminator
    pub tail: usize,
    pub terminator: bool,
    /// snapshot mode: number of node addresses in the header (a long header spans several reads)
    #[serde(default)]
    pub hdr_addrs: usize,
}

#[derive(Serialize, Deserialize, Clone, Debug)]
pub struct CStep {
    /// body length of the record's value field
    pub len: usize,
}

fn frame_log_record(i: u64, len: usize, rng: &mut Rng) -> Vec<u8> {
    let mut value = vec![0u8; len];
    for b in value.iter_mut() {
        *b = (rng.next_u64() % 251 + 1) as u8;
    }
    let rec = LogRecordDto { index: i + 1, term: 1 + i / 7, value };
    let mut buf = Vec::new();
    let mut w = Writer::new(&mut buf);
    w.write_message(&rec.to_record_do()).unwrap();
    buf
}

fn frame_snapshot_record(i: u64, len: usize, rng: &mut Rng) -> Vec<u8> {
    let mut value = vec![0u8; len];
    for b in value.iter_mut() {
        *b = (rng.next_u64() % 251 + 1) as u8;
    }
    let rec = SnapshotRecordDto { tree: Arc::new("t".to_string()), key: format!("k{}", i).into_bytes(), value, op_type: 0 };
    let mut buf = Vec::new();
    let mut w = Writer::new(&mut buf);
    w.write_message(&rec.to_record_do()).unwrap();
    buf
}

fn chunks_for(style: u8, frames: &[Vec<u8>], total: usize, rng: &mut Rng) -> Vec<usize> {
    let mut out = vec![];
    let mut left = total;
    // record boundaries (absolute offsets)
    let mut bounds = vec![];
    let mut acc = 0;
    for f in frames {
        acc += f.len();
        bounds.push(acc);
    }
    let mut pos = 0usize;
    while left > 0 {
        let mut n = match style {
            0 => rng.range(1, 64) as usize,
            1 => *rng.pick(&[1023usize, 1024, 1024, 1024, 1]),
            2 => {
                // end exactly on the next record boundary when it is within 1024 bytes
                match bounds.iter().find(|b| **b > pos) {
                    Some(b) if *b - pos <= 1024 && rng.chance(0.7) => *b - pos,
                    _ => rng.range(1, 1024) as usize,
                }
            }
            3 => 1,
            4 => 1024,
            _ => rng.range(1, 1024) as usize,
        };
        n = n.clamp(1, 1024).min(left);
        out.push(n);
        left -= n;
        pos += n;
    }
    out
}

pub async fn exec_c(script: Value) -> ExecResult {
    let seed = script["seed"].as_u64().unwrap_or(1);
    let cfg: CCfg = match serde_json::from_value(script["cfg"].clone()) {
        Ok(c) => c,
        Err(e) => return ExecResult { violation: Some(Violation::new("harness.script", e.to_string())), info: RunInfo::default() },
    };
    let steps: Vec<CStep> = serde_json::from_value(script["steps"].clone()).unwrap_or_default();
    let r = run_c(seed, &cfg, &steps).await;
    let mut info = RunInfo::default();
    info.nontrivial = steps.len() >= 2;
    info.digest = digest_str(&format!("{:?}{}", steps.iter().map(|s| s.len).collect::<Vec<_>>(), cfg.mode));
    ExecResult { violation: r.err(), info }
}

async fn run_c(seed: u64, cfg: &CCfg, steps: &[CStep]) -> VResult<()> {
    varint_precondition(seed)?;
    let mut rng = Rng::derive(seed, "C20.data", 0);
    let snapshot = cfg.mode == "snapshot";
    let mut frames: Vec<Vec<u8>> = vec![];
    let mut header_frame: Option<Vec<u8>> = None;
    if snapshot {
        let mut addrs = HashMap::new();
        addrs.insert(1u64, Arc::new("127.0.0.1:9848".to_string()));
        for k in 0..cfg.hdr_addrs {
            addrs.insert(100 + k as u64, Arc::new(format!("node-{}.cluster.example.internal:9848", k)));
        }
        if cfg.hdr_addrs > 30 {
            sim::count("probe.snapshot_header_gt_1024", 1);
        }
        let h = SnapshotHeaderDto { last_index: 10, last_term: 2, member: vec![1, 2, 3], member_after_consensus: vec![], node_addrs: addrs };
        let mut buf = Vec::new();
        let mut w = Writer::new(&mut buf);
        w.write_message(&h.to_record_do()).unwrap();
        header_frame = Some(buf);
    }
    for (i, st) in steps.iter().enumerate() {
        frames.push(if snapshot { frame_snapshot_record(i as u64, st.len, &mut rng) } else { frame_log_record(i as u64, st.len, &mut rng) });
    }
    for f in &frames {
        let l = f.len();
        if l > 1024 {
            sim::count("probe.record_gt_1024", 1);
        }
        let plen = inner_sizeof_varint((l - 1) as u64).min(3);
        sim::count(&format!("probe.prefix_{}b", if l < 129 { 1 } else if l < 16386 { 2 } else { 3 }), 1);
        let _ = plen;
    }
    let mut stream = Vec::new();
    if let Some(h) = &header_frame {
        stream.extend_from_slice(h);
    }
    for f in &frames {
        stream.extend_from_slice(f);
    }
    let data_len = stream.len();
    if cfg.terminator {
        stream.push(0);
        for _ in 0..cfg.tail {
            stream.push((rng.next_u64() % 255 + 1) as u8);
        }
    }
    sim::event(&format!("stream mode={} records={} bytes={} tail={}", cfg.mode, frames.len(), stream.len(), cfg.tail));
    match cfg.mode.as_str() {
        "buf_scan" | "buf_stream" => {
            let chunks = chunks_for(cfg.chunk_style, &frames, stream.len(), &mut rng);
            let mut reader = MessageBufReader::new();
            let mut got: Vec<Vec<u8>> = vec![];
            let mut pos = 0;
            let mut consumed = 0usize;
            for n in chunks {
                let chunk = &stream[pos..pos + n];
                pos += n;
                reader.append_next_buf(chunk);
                sim::event(&format!("chunk {}", n));
                while let Some(v) = reader.next_message_vec() {
                    consumed += v.len();
                    sim::event(&format!("rec {}", v.len()));
                    got.push(v.to_vec());
                }
                if consumed == pos {
                    sim::count("probe.record_ends_on_chunk_end", 1);
                }
                if cfg.mode == "buf_scan" && reader.is_empty() {
                    break;
                }
            }
            compare(&got, &frames, &cfg.mode)?;
        }
        "file_next" | "file_pos" | "file_chunks" | "snapshot" => {
            let path = format!("{}/c20/stream", run_root(seed));
            let (name, _, _) = tokio::fs::canon(std::path::Path::new(&path));
            tokio::fs::write_file_raw(&name, stream.clone());
            let mut dc = tokio::fs::DiskCfg::default();
            dc.p_short_read = cfg.p_short_read;
            tokio::fs::set_cfg(dc);
            let file = tokio::fs::OpenOptions::new().read(true).open(&path).await.map_err(|e| Violation::new("harness.open", e.to_string()))?;
            match cfg.mode.as_str() {
                "file_next" => {
                    let mut r = FileMessageReader::new(file, 0);
                    let mut got = vec![];
                    for _ in 0..frames.len() + 3 {
                        match r.read_next().await {
                            Ok(v) => got.push(v),
                            Err(_) => break,
                        }
                    }
                    compare(&got, &frames, "file_next")?;
                    // the same reader moved back to the start (it has seen the end of the stream) reads the same records again
                    r.seek_start(0).await.map_err(|e| Violation::new("harness.seek", e.to_string()))?;
                    let mut again = vec![];
                    for _ in 0..frames.len() + 3 {
                        match r.read_next().await {
                            Ok(v) => again.push(v),
                            Err(_) => break,
                        }
                    }
                    compare(&again, &frames, "file_next (second pass after seek_start)")?;
                    sim::count("probe.file_reader_second_pass", 1);
                }
                "file_pos" => {
                    let mut r = FileMessageReader::new(file, 0);
                    // position of the i-th record, for a few i, then count to the end
                    let mut offs = vec![];
                    let mut acc = 0u64;
                    for f in &frames {
                        offs.push((acc, f.len() as u64));
                        acc += f.len() as u64;
                    }
                    for _ in 0..3 {
                        if frames.is_empty() {
                            break;
                        }
                        let i = rng.below(frames.len() as u64) as usize;
                        r.seek_start(0).await.map_err(|e| Violation::new("harness.seek", e.to_string()))?;
                        match r.read_index_position(i).await {
                            Ok(p) => vensure!(p.position == offs[i].0 && p.len == offs[i].1, "C20.position", "read_index_position({}) = ({},{}) but record {} is at ({},{})", i, p.position, p.len, i, offs[i].0, offs[i].1),
                            Err(e) => vfail!("C20.position", "read_index_position({}) failed: {} (record exists at {})", i, e, offs[i].0),
                        }
                    }
                    r.seek_start(0).await.map_err(|e| Violation::new("harness.seek", e.to_string()))?;
                    let (count, last) = r.read_to_end().await.map_err(|e| Violation::new("C20.read_to_end", e.to_string()))?;
                    vensure!(count as usize == frames.len(), "C20.count", "read_to_end counted {} records, {} were written", count, frames.len());
                    if !frames.is_empty() {
                        vensure!(last.get_end_position() == data_len as u64, "C20.count", "read_to_end ends at {} but the data ends at {}", last.get_end_position(), data_len);
                        // and after the end has been seen: positions are still found from the start
                        let i = rng.below(frames.len() as u64) as usize;
                        r.seek_start(0).await.map_err(|e| Violation::new("harness.seek", e.to_string()))?;
                        match r.read_index_position(i).await {
                            Ok(p) => vensure!(p.position == offs[i].0 && p.len == offs[i].1, "C20.position", "after read_to_end and seek_start(0), read_index_position({}) = ({},{}) but record {} is at ({},{})", i, p.position, p.len, i, offs[i].0, offs[i].1),
                            Err(e) => vfail!("C20.position", "after read_to_end and seek_start(0), read_index_position({}) failed: {} (record exists at {})", i, e, offs[i].0),
                        }
                    }
                }
                "file_chunks" => {
                    // the loop of move_to_index_by_count / read_records / read_record: 1024-byte reads into a MessageBufReader
                    let mut file = file;
                    let mut reader = MessageBufReader::new();
                    let mut got = vec![];
                    let mut buf = vec![0u8; 1024];
                    loop {
                        let n = file.read(&mut buf).await.map_err(|e| Violation::new("harness.read", e.to_string()))?;
                        if n == 0 {
                            break;
                        }
                        reader.append_next_buf(&buf[..n]);
                        sim::event(&format!("read {}", n));
                        while let Some(v) = reader.next_message_vec() {
                            sim::event(&format!("rec {}", v.len()));
                            got.push(v.to_vec());
                        }
                        if reader.is_empty() {
                            break;
                        }
                    }
                    compare(&got, &frames, "file_chunks")?;
                }
                _ => {
                    let mut r = SnapshotReader::init_by_file(Box::new(file)).await.map_err(|e| Violation::new("C20.snapshot_header", format!("SnapshotReader::init failed: {}", e)))?;
                    vensure!(r.get_header().last_index == 10 && r.get_header().member == vec![1, 2, 3], "C20.snapshot_header", "header decoded as {:?}", r.get_header());
                    let mut got = vec![];
                    loop {
                        match r.read_record().await {
                            Ok(Some(rec)) => {
                                let mut buf = Vec::new();
                                let mut w = Writer::new(&mut buf);
                                w.write_message(&rec.to_record_do()).unwrap();
                                got.push(buf);
                            }
                            Ok(None) => break,
                            Err(e) => vfail!("C20.snapshot_record", "read_record failed after {} records: {}", got.len(), e),
                        }
                        if got.len() > frames.len() + 3 {
                            break;
                        }
                    }
                    compare(&got, &frames, "snapshot")?;
                }
            }
        }
        other => vfail!("harness.script", "unknown mode {}", other),
    }
    Ok(())
}

fn compare(got: &[Vec<u8>], want: &[Vec<u8>], mode: &str) -> VResult<()> {
    sim::event(&format!("decoded {} of {} h={:x}", got.len(), want.len(), got.iter().fold(0u64, |h, g| h.wrapping_mul(31).wrapping_add(sim::fnv64(g)))));
    for (i, g) in got.iter().enumerate() {
        match want.get(i) {
            None => vfail!("C20.added", "{}: {} records decoded but {} were written; extra record of {} bytes", mode, got.len(), want.len(), g.len()),
            Some(w) => vensure!(g == w, "C20.different", "{}: record {} decoded differently ({} bytes vs {} bytes written)", mode, i, g.len(), w.len()),
        }
    }
    vensure!(got.len() == want.len(), "C20.dropped", "{}: {} records decoded but {} were written before the terminator", mode, got.len(), want.len());
    Ok(())
}

/// writer, reader and size function agree (plain enumeration: boundary values + seeded values)
fn varint_precondition(seed: u64) -> VResult<()> {
    let mut vals: Vec<u64> = vec![0, 1, u64::MAX, u64::MAX - 1];
    for k in 1..10u32 {
        let b = 1u64 << (7 * k);
        vals.extend_from_slice(&[b - 1, b, b + 1]);
    }
    vals.push(1u64 << 63);
    vals.push((1u64 << 63) - 1);
    let mut rng = Rng::derive(seed, "C20.varint", 0);
    for _ in 0..200 {
        let bits = rng.range(1, 64);
        vals.push(rng.next_u64() >> (64 - bits));
    }
    for v in vals {
        let enc = write_varint64(v);
        vensure!(enc.len() == inner_sizeof_varint(v), "C20.varint", "value {}: writer produced {} bytes, size function says {}", v, enc.len(), inner_sizeof_varint(v));
        let mut padded = enc.clone();
        padded.extend_from_slice(&[0u8; 10]);
        match read_varint64(&padded) {
            Ok(r) => vensure!(r == v, "C20.varint", "value {} read back as {}", v, r),
            Err(e) => vfail!("C20.varint", "value {} cannot be read back: {}", v, e),
        }
        sim::count("varint.values_checked", 1);
    }
    Ok(())
}

pub struct C20;
impl Check for C20 {
    fn id(&self) -> &'static str {
        "C20"
    }
    fn generate(&self, seed: u64, _tier: Tier) -> Value {
        let mut rng = Rng::derive(seed, "C20.gen", 0);
        let mode = *rng.pick(&["buf_scan", "buf_scan", "buf_stream", "file_next", "file_pos", "file_chunks", "snapshot"]);
        let n = rng.range(0, 40);
        let mut steps = vec![];
        // frame overhead of a LogRecord with small index/term: 2+2+1+len-prefix; aim the *frame* at the boundaries
        for _ in 0..n {
            let r = rng.below(100);
            let len = if r < 25 {
                *rng.pick(&[1usize, 2, 120, 121, 122, 123, 126, 127, 128, 129, 1010, 1011, 1012, 1013, 1014, 1015, 1016, 1017, 1018, 1019, 1020, 1021, 1022, 1023, 1024, 1025, 1026, 2040, 2041, 2042, 2045, 2048, 2050])
            } else if r < 30 {
                *rng.pick(&[16370usize, 16375, 16380, 16383, 16384, 16390, 70_000])
            } else {
                rng.range(1, 3000) as usize
            };
            steps.push(CStep { len });
        }
        let cfg = CCfg {
            mode: mode.to_string(),
            // short reads of a regular file do not happen below 2 MiB with tokio::fs; they are injected
            // here only into the readers that loop over 1024-byte reads (which is where the statement's
            // "however the bytes are split into read chunks" applies); see DESIGN.md
            p_short_read: if mode == "file_chunks" || mode == "snapshot" { *rng.pick(&[0.0, 0.2, 0.6]) } else { 0.0 },
            chunk_style: rng.below(6) as u8,
            tail: if rng.chance(0.5) { rng.range(1, 300) as usize } else { 0 },
            terminator: rng.chance(0.85),
            hdr_addrs: if mode == "snapshot" && rng.chance(0.3) { rng.range(1, 80) as usize } else { 0 },
        };
        json!({"check": "C20", "seed": seed, "cfg": cfg, "steps": steps})
    }
    fn execute(&self, script: Value) -> LocalFut<ExecResult> {
        Box::pin(exec_c(script))
    }
    fn shrink_step(&self, step: &Value) -> Vec<Value> {
        let len = step["len"].as_u64().unwrap_or(1) as usize;
        let mut out = vec![];
        for l in [1usize, len / 2, len.saturating_sub(1)] {
            if l >= 1 && l < len {
                out.push(json!({"len": l}));
            }
        }
        out
    }
    fn shrink_cfg(&self, cfg: &Value) -> Vec<Value> {
        let mut out = vec![];
        let c: CCfg = match serde_json::from_value(cfg.clone()) {
            Ok(c) => c,
            Err(_) => return out,
        };
        if c.tail > 0 {
            let mut d = c.clone();
            d.tail = 0;
            out.push(serde_json::to_value(d).unwrap());
        }
        if c.p_short_read > 0.0 {
            let mut d = c.clone();
            d.p_short_read = 0.0;
            out.push(serde_json::to_value(d).unwrap());
        }
        out
    }
}
