//! Naming cluster checks on Rig-N xN: C14 distro ownership per view, C15 registry convergence.
use crate::checks_n::{cluster_up, disk_cfg, NCfg};
use crate::core::*;
use crate::http::*;
use crate::rig_n::*;
use crate::{api_app, vensure, vfail};
use actix_web::web::Data;
use actix_web::App;
use rnacos::common::hash_utils::get_hash_value;
use rnacos::naming::cluster::model::{NamingRouteAddr, ProcessRange};
use rnacos::naming::cluster::node_manage::{NodeManageRequest, NodeManageResponse, NodeStatus};
use rnacos::naming::core::{NamingCmd, NamingResult};
use rnacos::naming::model::{Instance, ServiceKey};
use rnacos::openapi::middle::auth_middle::ApiCheckAuth;
use rnacos::web_config::app_config;
use serde_json::{json, Value};
use std::collections::{BTreeMap, BTreeSet};
use std::ops::Deref;
use std::sync::Arc;
use tokio::sim::{self, Rng};

const NS: &str = "public";
const GROUP: &str = "DEFAULT_GROUP";

fn skey(name: &str) -> ServiceKey {
    ServiceKey::new(NS, GROUP, name)
}

/// all (n, failed-subset) views: n = 1..5, F = any proper subset of the nodes (empty included)
pub fn all_views() -> Vec<(u64, u64)> {
    let mut v = vec![];
    for n in 1..=5u64 {
        for mask in 0..(1u64 << n) - 1 {
            v.push((n, mask));
        }
    }
    v
}

async fn instances_on(n: &NodeH, name: &str) -> Vec<Arc<Instance>> {
    match n.app.naming_addr.send(NamingCmd::QueryAllInstanceList(skey(name))).await {
        Ok(Ok(NamingResult::InstanceList(l))) => l,
        _ => vec![],
    }
}

async fn http_register(n: &NodeH, name: &str, ip: &str) -> (u16, String) {
    let app = api_app!(n);
    let q = format!("serviceName={}&ip={}&port=8080&namespaceId={}&groupName={}", urlencode(name), ip, NS, GROUP);
    let r = call(&app, "POST", &format!("/nacos/v1/ns/instance?{}", q), &[], None).await;
    (r.status, r.text())
}


async fn dbg_state(label: &str, ids: &[u64], items: &[(String, String)]) {
    if std::env::var("RNSIM_NM_DEBUG").is_err() {
        return;
    }
    for (name, ip) in items {
        let mut line = format!("dbg {} t={} {} {}:", label, sim::now_us() / 1000, name, ip);
        for x in ids {
            if let Some(n) = node(*x) {
                let l = instances_on(&n, name).await;
                match l.iter().find(|i| i.ip.as_str() == ip) {
                    Some(i) => line.push_str(&format!(" n{}[h{} fc{} c{} lm{}]", x, i.healthy as u8, i.from_cluster, i.client_id, i.last_modified_millis % 1_000_000)),
                    None => line.push_str(&format!(" n{}[-]", x)),
                }
            }
        }
        eprintln!("{}", line);
    }
}

/// Ownership oracle over the current views of `observers`: nodes sharing a view agree on exactly one owner per
/// key and route every key to it. Returns (views checked, digest).
async fn check_views(nn: u64, observers: &[u64], failed: &[u64], isolate_mode: bool, nkeys: u64, phase: &str) -> VResult<(u64, u64)> {
    let mut views_checked = 0u64;
    let digest;
        let mut view_of: BTreeMap<u64, BTreeSet<u64>> = BTreeMap::new();
        let mut range_of: BTreeMap<u64, ProcessRange> = BTreeMap::new();
        for x in observers {
            let n = node(*x).unwrap();
            let valid = n.app.naming_node_manage.get_all_valid_nodes().await.map_err(|e| Violation::new("C14.query_failed", e.to_string()))?;
            view_of.insert(*x, valid.iter().map(|v| v.id).collect());
            match n.app.naming_inner_node_manage.send(NodeManageRequest::QueryOwnerRange(ProcessRange::new(0, 0))).await {
                Ok(Ok(NodeManageResponse::OwnerRange(l))) if !l.is_empty() => {
                    range_of.insert(*x, l[0].clone());
                }
                _ => vfail!("C14.query_failed", "QueryOwnerRange failed on node {}", x),
            }
        }
        sim::event(&format!("views {:?} ranges {:?}", view_of, range_of.iter().map(|(k, v)| (*k, v.index, v.len)).collect::<Vec<_>>()));
        // groups of nodes sharing one view; a group is checked when the view is exactly the group
        let mut groups: BTreeMap<Vec<u64>, Vec<u64>> = BTreeMap::new();
        for (x, v) in &view_of {
            groups.entry(v.iter().cloned().collect()).or_default().push(*x);
        }
        for (view, members) in &groups {
            if view != members {
                // transitional / asymmetric view: the statement speaks about nodes sharing a view of who is alive
                sim::count("probe.view_not_shared", 1);
                if !isolate_mode {
                    vfail!("C14.view_not_settled", "{}: 25 s after the change (failed nodes {:?}) the live nodes do not share one view: {:?}", phase, failed, view_of);
                }
                continue;
            }
            views_checked += 1;
            sim::count("probe.view_checked", 1);
            if view.iter().any(|x| failed.iter().any(|f| f < x)) && view.len() > 1 {
                sim::count("probe.failed_node_below_live_node", 1);
            }
            let mut unowned = vec![];
            let mut multi = vec![];
            let mut misrouted = vec![];
            for k in 0..nkeys {
                let name = format!("svc-{}", k);
                let key = skey(&name);
                let hv = get_hash_value(&key) as usize;
                let owners: Vec<u64> = members.iter().filter(|x| range_of[x].is_range(hv)).cloned().collect();
                if owners.is_empty() {
                    unowned.push(name.clone());
                } else if owners.len() > 1 {
                    multi.push((name.clone(), owners.clone()));
                }
                // routing: every member sends the key to the same node, the one that considers itself the owner
                let mut targets = BTreeSet::new();
                for x in members {
                    let n = node(*x).unwrap();
                    let t = match n.app.naming_node_manage.route_addr(&key).await {
                        NamingRouteAddr::Local(_) => *x,
                        NamingRouteAddr::Remote(_, addr) => addr.trim_start_matches('n').split(':').next().and_then(|s| s.parse().ok()).unwrap_or(0),
                    };
                    targets.insert(t);
                }
                if targets.len() != 1 || (owners.len() == 1 && !targets.contains(&owners[0])) {
                    misrouted.push((name.clone(), targets.iter().cloned().collect::<Vec<_>>(), owners.clone()));
                }
            }
            let ranges: Vec<(u64, usize, usize)> = members.iter().map(|x| (*x, range_of[x].index, range_of[x].len)).collect();
            if !unowned.is_empty() {
                vfail!("C14.no_owner", "{} n={} failed={:?} view={:?}: {} of {} service keys are owned by no live node (e.g. {}); ranges (node, index, len) = {:?}", phase, nn, failed, view, unowned.len(), nkeys, unowned[0], ranges);
            }
            if !multi.is_empty() {
                vfail!("C14.several_owners", "{} n={} failed={:?} view={:?}: {} keys have several owners (e.g. {:?}); ranges = {:?}", phase, nn, failed, view, multi.len(), multi[0], ranges);
            }
            if !misrouted.is_empty() {
                vfail!("C14.route_not_owner", "{} n={} failed={:?} view={:?}: {} keys are not routed to their owner (e.g. key, targets, owners = {:?}); ranges = {:?}", phase, nn, failed, view, misrouted.len(), misrouted[0], ranges);
            }
        }
        digest = digest_str(&format!("{:?}{:?}", view_of, range_of.iter().map(|(k, v)| (*k, v.index, v.len)).collect::<Vec<_>>()));
    Ok((views_checked, digest))
}

pub async fn exec_c14(script: Value) -> ExecResult {
    let id = "C14";
    let seed = script["seed"].as_u64().unwrap_or(1);
    let cfg: NCfg = serde_json::from_value(script["cfg"].clone()).unwrap_or_default();
    let nn = cfg.nodes.max(1);
    let mask = script["failed_mask"].as_u64().unwrap_or(0);
    let isolate_mode = script["isolate"].as_bool().unwrap_or(false);
    let nkeys = script["keys"].as_u64().unwrap_or(256);
    let behaviour = script["behaviour"].as_bool().unwrap_or(true);
    tokio::fs::set_cfg(disk_cfg(&cfg));
    tokio::fs::with_disk(|d| {
        d.journal_on = false;
        d.log_ops = false;
    });
    net_reset(seed, cfg.net.clone());
    let root = run_root(seed);
    let mut findings: Vec<Violation> = vec![];
    let mut digest = 0u64;
    let mut views_checked = 0u64;
    let h_ms = cfg.node.naming_health_timeout + 3000;
    let r_ms = cfg.node.naming_instance_timeout + 3000;
    let r: VResult<()> = async {
        cluster_up(&root, &cfg, id).await?;
        // the naming node list follows the raft membership; let the 3 s pings establish liveness
        advance(8_000).await;
        let failed: Vec<u64> = (1..=nn).filter(|i| mask & (1 << (i - 1)) != 0).collect();
        let survivors: Vec<u64> = (1..=nn).filter(|i| !failed.contains(i)).collect();
        let all_ids: Vec<u64> = (1..=nn).collect();
        let mut rng = Rng::derive(seed, "C14.exec", 0);
        // instances registered just before the fault (no heartbeats will follow): they must be expired by
        // somebody, whoever owned them
        let mut orphans: Vec<(String, String)> = vec![];
        if behaviour {
            for j in 0..6u64 {
                let name = format!("pre-{}-{}", seed % 97, j);
                let via = *rng.pick(&all_ids);
                let ip = format!("10.9.0.{}", j + 1);
                let (st, body) = http_register(&node(via).unwrap(), &name, &ip).await;
                vensure!(st == 200, "C14.register_failed", "registration of {} through node {} before the fault answered {} {}", name, via, st, body);
                orphans.push((name, ip));
            }
            advance(1_500).await;
        }
        for f in &failed {
            if isolate_mode {
                isolate(*f, &all_ids);
                sim::count("fault.isolate", 1);
            } else {
                kill_node(*f).await;
                sim::count("fault.kill", 1);
            }
        }
        let t_fault = sim::now_us();
        // the genuine 15 s liveness timer and 3 s ping mark the starved nodes unavailable
        for _ in 0..5 {
            advance(5_000).await;
            dbg_state("after-fault", &all_ids, &orphans).await;
        }
        // ---- views ----
        let observers: Vec<u64> = if isolate_mode { all_ids.clone() } else { survivors.clone() };
        let (vc, dg) = check_views(nn, &observers, &failed, isolate_mode, nkeys, "after the fault").await?;
        views_checked += vc;
        digest ^= dg;
        // ---- recovery: the failed nodes come back, the full view must be restored ----
        if script["recover"].as_bool().unwrap_or(false) && !failed.is_empty() {
            for f in &failed {
                if isolate_mode {
                    heal_all();
                } else {
                    start_node(&root, *f, *f == 1, if *f == 1 { None } else { Some(survivors[0]) }, &cfg.node).await.map_err(|e| Violation::new("harness.start", e.to_string()))?;
                }
            }
            sim::count("probe.recovered", 1);
            advance(25_000).await;
            let (vc, dg) = check_views(nn, &all_ids, &[], false, nkeys, "after the failed nodes came back").await?;
            views_checked += vc;
            digest ^= dg;
        }
        // ---- behaviour: somebody supervises every service ----
        if behaviour && !survivors.is_empty() {
            let mut fresh: Vec<(String, String)> = vec![];
            for j in 0..4u64 {
                let name = format!("post-{}-{}", seed % 89, j);
                let via = *rng.pick(&survivors);
                let ip = format!("10.9.1.{}", j + 1);
                let (st, body) = http_register(&node(via).unwrap(), &name, &ip).await;
                vensure!(st == 200, "C14.register_failed", "registration of {} through surviving node {} answered {} {}", name, via, st, body);
                fresh.push((name, ip));
            }
            advance(1_000).await;
            for (name, ip) in &fresh {
                let mut seen = 0;
                for x in &survivors {
                    if instances_on(&node(*x).unwrap(), name).await.iter().any(|i| i.ip.as_str() == ip) {
                        seen += 1;
                    }
                }
                vensure!(seen > 0, "C14.registration_lost", "{} registered through a survivor is known to no surviving node 1 s later", name);
            }
            // silence: both time-outs, the 2 s scan, the sync interval and slack
            let total = h_ms + r_ms + 15_000;
            let mut done = 0;
            while done < total {
                advance(5_000.min(total - done)).await;
                done += 5_000;
                dbg_state("silence", &all_ids, &orphans).await;
                dbg_state("silence", &all_ids, &fresh).await;
            }
            for (name, ip) in fresh.iter().chain(orphans.iter()) {
                for x in &survivors {
                    let l = instances_on(&node(*x).unwrap(), name).await;
                    if let Some(i) = l.iter().find(|i| i.ip.as_str() == ip) {
                        let age = (sim::now_us() - t_fault) / 1000;
                        let v = Violation::new("C14.nobody_supervises", format!("n={} failed={:?}{}: instance {}:8080 of {} (registered over HTTP, never heart-beating) is still served by node {} {} ms after the fault (healthy={}, from_cluster={}); health time-out {} ms, instance time-out {} ms", nn, failed, if isolate_mode { " (isolated)" } else { "" }, ip, name, x, age, i.healthy, i.from_cluster, h_ms, r_ms));
                        return Err(v);
                    }
                }
            }
            sim::count("probe.silent_instances_expired", (fresh.len() + orphans.len()) as u64);
        }
        Ok(())
    }
    .await;
    let info = RunInfo { digest, nontrivial: views_checked >= 1, info: json!({"views_checked": views_checked, "n": nn, "failed_mask": mask}), findings: std::mem::take(&mut findings) };
    for n in live_nodes() {
        kill_node(n.id).await;
    }
    ExecResult { violation: r.err(), info }
}

pub struct C14;
impl Check for C14 {
    fn id(&self) -> &'static str {
        "C14"
    }
    fn generate(&self, seed: u64, _tier: Tier) -> Value {
        // the (n, F) product is walked systematically: seed -> view index, then kill / isolate
        let views = all_views();
        let idx = (seed as usize) % (views.len() * 2);
        let (n, mask) = views[idx % views.len()];
        let isolate = idx >= views.len();
        let mut rng = Rng::derive(seed, "C14.gen", 0);
        let mut cfg = NCfg::default();
        cfg.nodes = n;
        cfg.node.snapshot_log_size = 10_000;
        cfg.node.naming_health_timeout = rng.range(3, 6) * 1000;
        cfg.node.naming_instance_timeout = cfg.node.naming_health_timeout + rng.range(5, 10) * 1000;
        json!({"check": "C14", "seed": seed, "cfg": cfg, "failed_mask": mask, "isolate": isolate, "keys": 256, "behaviour": false, "recover": true, "steps": []})
    }
    fn execute(&self, script: Value) -> LocalFut<ExecResult> {
        Box::pin(exec_c14(script))
    }
}
