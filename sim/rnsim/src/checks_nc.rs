//! Naming cluster checks on Rig-N xN: C14 distro ownership per view, C15 registry convergence.
use crate::checks_n::{cluster_up, disk_cfg, NCfg};
use crate::core::*;
use crate::http::*;
use crate::rig_n::*;
use crate::{api_app, vensure, vfail};
use actix_web::web::Data;
use actix_web::App;
use rnacos::common::hash_utils::get_hash_value;
use rnacos::naming::cluster::model::{NamingRouteAddr, ProcessRange};
use rnacos::naming::cluster::node_manage::{NodeManageRequest, NodeManageResponse, NodeStatus};
use rnacos::naming::core::{NamingCmd, NamingResult};
use rnacos::naming::model::{Instance, ServiceKey};
use rnacos::openapi::middle::auth_middle::ApiCheckAuth;
use rnacos::web_config::app_config;
use serde_json::{json, Value};
use std::collections::{BTreeMap, BTreeSet};
use std::ops::Deref;
use std::sync::Arc;
use tokio::sim::{self, Rng};

const NS: &str = "public";
const GROUP: &str = "DEFAULT_GROUP";

fn skey(name: &str) -> ServiceKey {
    ServiceKey::new(NS, GROUP, name)
}

/// all (n, failed-subset) views: n = 1..5, F = any proper subset of the nodes (empty included)
pub fn all_views() -> Vec<(u64, u64)> {
    let mut v = vec![];
    for n in 1..=5u64 {
        for mask in 0..(1u64 << n) - 1 {
            v.push((n, mask));
        }
    }
    v
}

async fn instances_on(n: &NodeH, name: &str) -> Vec<Arc<Instance>> {
    match n.app.naming_addr.send(NamingCmd::QueryAllInstanceList(skey(name))).await {
        Ok(Ok(NamingResult::InstanceList(l))) => l,
        _ => vec![],
    }
}

async fn http_register(n: &NodeH, name: &str, ip: &str) -> (u16, String) {
    let app = api_app!(n);
    let q = format!("serviceName={}&ip={}&port=8080&namespaceId={}&groupName={}", urlencode(name), ip, NS, GROUP);
    let r = call(&app, "POST", &format!("/nacos/v1/ns/instance?{}", q), &[], None).await;
    (r.status, r.text())
}


async fn dbg_state(label: &str, ids: &[u64], items: &[(String, String)]) {
    if std::env::var("RNSIM_NM_DEBUG").is_err() {
        return;
    }
    for (name, ip) in items {
        let mut line = format!("dbg {} t={} {} {}:", label, sim::now_us() / 1000, name, ip);
        for x in ids {
            if let Some(n) = node(*x) {
                let l = instances_on(&n, name).await;
                match l.iter().find(|i| i.ip.as_str() == ip) {
                    Some(i) => line.push_str(&format!(" n{}[h{} fc{} c{} lm{}]", x, i.healthy as u8, i.from_cluster, i.client_id, i.last_modified_millis % 1_000_000)),
                    None => line.push_str(&format!(" n{}[-]", x)),
                }
            }
        }
        eprintln!("{}", line);
    }
}

/// Ownership oracle over the current views of `observers`: nodes sharing a view agree on exactly one owner per
/// key and route every key to it. Returns (views checked, digest).
async fn check_views(nn: u64, observers: &[u64], failed: &[u64], isolate_mode: bool, nkeys: u64, phase: &str) -> VResult<(u64, u64)> {
    let mut views_checked = 0u64;
    let digest;
        let mut view_of: BTreeMap<u64, BTreeSet<u64>> = BTreeMap::new();
        let mut range_of: BTreeMap<u64, ProcessRange> = BTreeMap::new();
        for x in observers {
            let n = node(*x).unwrap();
            let valid = n.app.naming_node_manage.get_all_valid_nodes().await.map_err(|e| Violation::new("C14.query_failed", e.to_string()))?;
            view_of.insert(*x, valid.iter().map(|v| v.id).collect());
            match n.app.naming_inner_node_manage.send(NodeManageRequest::QueryOwnerRange(ProcessRange::new(0, 0))).await {
                Ok(Ok(NodeManageResponse::OwnerRange(l))) if !l.is_empty() => {
                    range_of.insert(*x, l[0].clone());
                }
                _ => vfail!("C14.query_failed", "QueryOwnerRange failed on node {}", x),
            }
        }
        sim::event(&format!("views {:?} ranges {:?}", view_of, range_of.iter().map(|(k, v)| (*k, v.index, v.len)).collect::<Vec<_>>()));
        // groups of nodes sharing one view; a group is checked when the view is exactly the group
        let mut groups: BTreeMap<Vec<u64>, Vec<u64>> = BTreeMap::new();
        for (x, v) in &view_of {
            groups.entry(v.iter().cloned().collect()).or_default().push(*x);
        }
        for (view, members) in &groups {
            if view != members {
                // transitional / asymmetric view: the statement speaks about nodes sharing a view of who is alive
                sim::count("probe.view_not_shared", 1);
                if !isolate_mode {
                    vfail!("C14.view_not_settled", "{}: 25 s after the change (failed nodes {:?}) the live nodes do not share one view: {:?}", phase, failed, view_of);
                }
                continue;
            }
            views_checked += 1;
            sim::count("probe.view_checked", 1);
            if view.iter().any(|x| failed.iter().any(|f| f < x)) && view.len() > 1 {
                sim::count("probe.failed_node_below_live_node", 1);
            }
            let mut unowned = vec![];
            let mut multi = vec![];
            let mut misrouted = vec![];
            for k in 0..nkeys {
                let name = format!("svc-{}", k);
                let key = skey(&name);
                let hv = get_hash_value(&key) as usize;
                let owners: Vec<u64> = members.iter().filter(|x| range_of[x].is_range(hv)).cloned().collect();
                if owners.is_empty() {
                    unowned.push(name.clone());
                } else if owners.len() > 1 {
                    multi.push((name.clone(), owners.clone()));
                }
                // routing: every member sends the key to the same node, the one that considers itself the owner
                let mut targets = BTreeSet::new();
                for x in members {
                    let n = node(*x).unwrap();
                    let t = match n.app.naming_node_manage.route_addr(&key).await {
                        NamingRouteAddr::Local(_) => *x,
                        NamingRouteAddr::Remote(_, addr) => addr.trim_start_matches('n').split(':').next().and_then(|s| s.parse().ok()).unwrap_or(0),
                    };
                    targets.insert(t);
                }
                if targets.len() != 1 || (owners.len() == 1 && !targets.contains(&owners[0])) {
                    misrouted.push((name.clone(), targets.iter().cloned().collect::<Vec<_>>(), owners.clone()));
                }
            }
            let ranges: Vec<(u64, usize, usize)> = members.iter().map(|x| (*x, range_of[x].index, range_of[x].len)).collect();
            if !unowned.is_empty() {
                vfail!("C14.no_owner", "{} n={} failed={:?} view={:?}: {} of {} service keys are owned by no live node (e.g. {}); ranges (node, index, len) = {:?}", phase, nn, failed, view, unowned.len(), nkeys, unowned[0], ranges);
            }
            if !multi.is_empty() {
                vfail!("C14.several_owners", "{} n={} failed={:?} view={:?}: {} keys have several owners (e.g. {:?}); ranges = {:?}", phase, nn, failed, view, multi.len(), multi[0], ranges);
            }
            if !misrouted.is_empty() {
                vfail!("C14.route_not_owner", "{} n={} failed={:?} view={:?}: {} keys are not routed to their owner (e.g. key, targets, owners = {:?}); ranges = {:?}", phase, nn, failed, view, misrouted.len(), misrouted[0], ranges);
            }
        }
        digest = digest_str(&format!("{:?}{:?}", view_of, range_of.iter().map(|(k, v)| (*k, v.index, v.len)).collect::<Vec<_>>()));
    Ok((views_checked, digest))
}

pub async fn exec_c14(script: Value) -> ExecResult {
    let id = "C14";
    let seed = script["seed"].as_u64().unwrap_or(1);
    let cfg: NCfg = serde_json::from_value(script["cfg"].clone()).unwrap_or_default();
    let nn = cfg.nodes.max(1);
    let mask = script["failed_mask"].as_u64().unwrap_or(0);
    let isolate_mode = script["isolate"].as_bool().unwrap_or(false);
    let nkeys = script["keys"].as_u64().unwrap_or(256);
    let behaviour = script["behaviour"].as_bool().unwrap_or(true);
    tokio::fs::set_cfg(disk_cfg(&cfg));
    tokio::fs::with_disk(|d| {
        d.journal_on = false;
        d.log_ops = false;
    });
    net_reset(seed, cfg.net.clone());
    let root = run_root(seed);
    let mut findings: Vec<Violation> = vec![];
    let mut digest = 0u64;
    let mut views_checked = 0u64;
    let h_ms = cfg.node.naming_health_timeout + 3000;
    let r_ms = cfg.node.naming_instance_timeout + 3000;
    let r: VResult<()> = async {
        cluster_up(&root, &cfg, id).await?;
        // the naming node list follows the raft membership; let the 3 s pings establish liveness
        advance(8_000).await;
        let failed: Vec<u64> = (1..=nn).filter(|i| mask & (1 << (i - 1)) != 0).collect();
        let survivors: Vec<u64> = (1..=nn).filter(|i| !failed.contains(i)).collect();
        let all_ids: Vec<u64> = (1..=nn).collect();
        let mut rng = Rng::derive(seed, "C14.exec", 0);
        // instances registered just before the fault (no heartbeats will follow): they must be expired by
        // somebody, whoever owned them
        let mut orphans: Vec<(String, String)> = vec![];
        if behaviour {
            for j in 0..6u64 {
                let name = format!("pre-{}-{}", seed % 97, j);
                let via = *rng.pick(&all_ids);
                let ip = format!("10.9.0.{}", j + 1);
                let (st, body) = http_register(&node(via).unwrap(), &name, &ip).await;
                vensure!(st == 200, "C14.register_failed", "registration of {} through node {} before the fault answered {} {}", name, via, st, body);
                orphans.push((name, ip));
            }
            advance(1_500).await;
        }
        for f in &failed {
            if isolate_mode {
                isolate(*f, &all_ids);
                sim::count("fault.isolate", 1);
            } else {
                kill_node(*f).await;
                sim::count("fault.kill", 1);
            }
        }
        let t_fault = sim::now_us();
        // the genuine 15 s liveness timer and 3 s ping mark the starved nodes unavailable
        for _ in 0..5 {
            advance(5_000).await;
            dbg_state("after-fault", &all_ids, &orphans).await;
        }
        // ---- views ----
        let observers: Vec<u64> = if isolate_mode { all_ids.clone() } else { survivors.clone() };
        let (vc, dg) = check_views(nn, &observers, &failed, isolate_mode, nkeys, "after the fault").await?;
        views_checked += vc;
        digest ^= dg;
        // ---- rolling change: a failed node comes back while a live one goes away, close enough in time that one
        // recomputation may see both (same number of live nodes, different positions) ----
        if script["rolling"].as_bool().unwrap_or(false) && !failed.is_empty() && survivors.len() >= 2 {
            let a = *rng.pick(&failed);
            let b = *rng.pick(&survivors);
            let off_ms = script["rolling_off_ms"].as_u64().unwrap_or(14_000);
            if isolate_mode {
                isolate(b, &all_ids);
            } else {
                kill_node(b).await;
            }
            sim::event(&format!("rolling: node {} goes away, node {} returns {} ms later", b, a, off_ms));
            advance(off_ms).await;
            if isolate_mode {
                heal_all();
                for f in failed.iter().filter(|f| **f != a) {
                    isolate(*f, &all_ids);
                }
                isolate(b, &all_ids);
            } else {
                start_node(&root, a, a == 1, if a == 1 { None } else { Some(*survivors.iter().find(|x| **x != b).unwrap_or(&1)) }, &cfg.node).await.map_err(|e| Violation::new("harness.start", e.to_string()))?;
            }
            sim::count("probe.rolling_swap", 1);
            advance(27_000).await;
            let failed2: Vec<u64> = failed.iter().cloned().filter(|f| *f != a).chain(std::iter::once(b)).collect();
            let obs2: Vec<u64> = if isolate_mode { all_ids.clone() } else { all_ids.iter().cloned().filter(|x| !failed2.contains(x)).collect() };
            let (vc, dg) = check_views(nn, &obs2, &failed2, isolate_mode, nkeys, "after a rolling change (one node back, another gone)").await?;
            views_checked += vc;
            digest ^= dg;
            // bring b back so that the recovery phase below starts from the original failed set minus a
            if isolate_mode {
                heal_all();
                for f in failed.iter().filter(|f| **f != a) {
                    isolate(*f, &all_ids);
                }
            } else {
                start_node(&root, b, b == 1, if b == 1 { None } else { Some(a) }, &cfg.node).await.map_err(|e| Violation::new("harness.start", e.to_string()))?;
            }
            advance(5_000).await;
        }
        // ---- recovery: the failed nodes come back, the full view must be restored ----
        if script["recover"].as_bool().unwrap_or(false) && !failed.is_empty() {
            for f in &failed {
                if isolate_mode {
                    heal_all();
                } else if node(*f).is_none() {
                    start_node(&root, *f, *f == 1, if *f == 1 { None } else { Some(survivors[0]) }, &cfg.node).await.map_err(|e| Violation::new("harness.start", e.to_string()))?;
                }
            }
            sim::count("probe.recovered", 1);
            advance(25_000).await;
            let (vc, dg) = check_views(nn, &all_ids, &[], false, nkeys, "after the failed nodes came back").await?;
            views_checked += vc;
            digest ^= dg;
        }
        // ---- behaviour: somebody supervises every service ----
        if behaviour && !survivors.is_empty() {
            let mut fresh: Vec<(String, String)> = vec![];
            for j in 0..4u64 {
                let name = format!("post-{}-{}", seed % 89, j);
                let via = *rng.pick(&survivors);
                let ip = format!("10.9.1.{}", j + 1);
                let (st, body) = http_register(&node(via).unwrap(), &name, &ip).await;
                vensure!(st == 200, "C14.register_failed", "registration of {} through surviving node {} answered {} {}", name, via, st, body);
                fresh.push((name, ip));
            }
            advance(1_000).await;
            for (name, ip) in &fresh {
                let mut seen = 0;
                for x in &survivors {
                    if instances_on(&node(*x).unwrap(), name).await.iter().any(|i| i.ip.as_str() == ip) {
                        seen += 1;
                    }
                }
                vensure!(seen > 0, "C14.registration_lost", "{} registered through a survivor is known to no surviving node 1 s later", name);
            }
            // silence: both time-outs, the 2 s scan, the sync interval and slack
            let total = h_ms + r_ms + 15_000;
            let mut done = 0;
            while done < total {
                advance(5_000.min(total - done)).await;
                done += 5_000;
                dbg_state("silence", &all_ids, &orphans).await;
                dbg_state("silence", &all_ids, &fresh).await;
            }
            for (name, ip) in fresh.iter().chain(orphans.iter()) {
                for x in &survivors {
                    let l = instances_on(&node(*x).unwrap(), name).await;
                    if let Some(i) = l.iter().find(|i| i.ip.as_str() == ip) {
                        let age = (sim::now_us() - t_fault) / 1000;
                        let v = Violation::new("C14.nobody_supervises", format!("n={} failed={:?}{}: instance {}:8080 of {} (registered over HTTP, never heart-beating) is still served by node {} {} ms after the fault (healthy={}, from_cluster={}); health time-out {} ms, instance time-out {} ms", nn, failed, if isolate_mode { " (isolated)" } else { "" }, ip, name, x, age, i.healthy, i.from_cluster, h_ms, r_ms));
                        return Err(v);
                    }
                }
            }
            sim::count("probe.silent_instances_expired", (fresh.len() + orphans.len()) as u64);
        }
        Ok(())
    }
    .await;
    let info = RunInfo { digest, nontrivial: views_checked >= 1, info: json!({"views_checked": views_checked, "n": nn, "failed_mask": mask}), findings: std::mem::take(&mut findings) };
    for n in live_nodes() {
        kill_node(n.id).await;
    }
    ExecResult { violation: r.err(), info }
}

pub struct C14;
impl Check for C14 {
    fn id(&self) -> &'static str {
        "C14"
    }
    fn generate(&self, seed: u64, _tier: Tier) -> Value {
        // the (n, F) product is walked systematically: seed -> view index, then kill / isolate
        let views = all_views();
        let idx = (seed as usize) % (views.len() * 2);
        let (n, mask) = views[idx % views.len()];
        let isolate = idx >= views.len();
        let mut rng = Rng::derive(seed, "C14.gen", 0);
        let mut cfg = NCfg::default();
        cfg.nodes = n;
        cfg.node.snapshot_log_size = 10_000;
        cfg.node.naming_health_timeout = rng.range(3, 6) * 1000;
        cfg.node.naming_instance_timeout = cfg.node.naming_health_timeout + rng.range(5, 10) * 1000;
        // the offset of the rolling swap sweeps the window in which the 15 s liveness time-out of the node that went away
        // and the first ping of the node that returns fall into the same 3 s check interval
        let off = 11_000 + (seed.wrapping_mul(137) % 8_000);
        json!({"check": "C14", "seed": seed, "cfg": cfg, "failed_mask": mask, "isolate": isolate, "keys": 256, "behaviour": false, "recover": true, "rolling": true, "rolling_off_ms": off, "steps": []})
    }
    fn execute(&self, script: Value) -> LocalFut<ExecResult> {
        Box::pin(exec_c14(script))
    }
}

// ---------------------------------------------------------------------------
// C15: registry convergence on 3 nodes
// ---------------------------------------------------------------------------
use rnacos::grpc::{PayloadHandler, PayloadUtils, RequestMeta};
use serde::{Deserialize, Serialize};

pub const CSVCS: [&str; 3] = ["conv-a", "conv-b", "conv-c"];

#[derive(Serialize, Deserialize, Clone, Debug, PartialEq)]
#[serde(tag = "op")]
pub enum CStep {
    HttpReg { node: u8, svc: u8, ip: u8, enabled: bool, weight: u8 },
    HttpDereg { node: u8, svc: u8, ip: u8 },
    GrpcReg { node: u8, conn: u8, svc: u8, ip: u8 },
    GrpcDereg { node: u8, conn: u8, svc: u8, ip: u8 },
    ConnClose { node: u8, conn: u8 },
    Advance { ms: u64 },
    /// loss / duplication / long delays of naming sync messages on or off
    NetFaults { on: bool },
    Cut { a: u8, b: u8 },
    Heal,
    Kill { node: u8 },
    Restart { node: u8 },
    /// persistent instance (Raft origin) registered / removed over HTTP; only generated for the C11 cluster scenario
    PersistReg { node: u8, svc: u8, ip: u8 },
    PersistDereg { node: u8, svc: u8, ip: u8 },
    /// kill `node`; after `delay_ms` the clients of its gRPC connections register the same addresses again through `to`
    Failover { node: u8, to: u8, conn: u8, delay_ms: u64 },
}

/// per-node memory of the bookkeeping oracle (C11 cluster scenario)
#[derive(Default, Clone)]
struct BkState {
    prev_listed: BTreeSet<String>,
    prev_count: BTreeMap<String, usize>,
}

fn bk_sig(l: &[Arc<Instance>]) -> String {
    let mut v: Vec<String> = l.iter().map(|x| format!("{}:{}:{}:{}:{}:{}:{}", x.ip, x.ephemeral, x.healthy, x.enabled, x.weight, x.client_id, x.last_modified_millis)).collect();
    v.sort();
    v.join(",")
}

/// C11's cross-invariants between public queries of ONE node of a cluster (what exec_naming checks on a single node):
/// counters of the service page == the instance query, every service with instances listed exactly once, a service leaves
/// the listing only when it had no instances, every instance recorded for a client exists and carries that client id,
/// the healthy-only / all queries return exactly the enabled (and healthy) instances, and (when `persist`) the persistent
/// set written by the real snapshot builder == the non-ephemeral instances. The observation is bracketed by two reads of
/// the instance lists and repeated when the registry's own timers or an incoming sync message changed them in between.
async fn bookkeeping_invariants(n: &NodeH, st: &mut BkState, when: &str, persist: bool) -> VResult<()> {
    use rnacos::naming::service_index::ServiceQueryParam;
    let mut tries = 0;
    loop {
        tries += 1;
        let mut all: BTreeMap<String, Vec<Arc<Instance>>> = BTreeMap::new();
        for name in CSVCS.iter() {
            all.insert(name.to_string(), instances_on(n, name).await);
        }
        let mut new_listed: BTreeSet<String> = BTreeSet::new();
        let res: VResult<()> = async {
            let p = ServiceQueryParam { namespace_id: Some(Arc::new(NS.to_string())), limit: 1000, ..Default::default() };
            let (total, infos) = match n.app.naming_addr.send(NamingCmd::QueryServiceInfoPage(p)).await {
                Ok(Ok(NamingResult::ServiceInfoPage((t, l)))) => (t, l),
                _ => vfail!("C11.query_failed", "QueryServiceInfoPage failed on node {}", n.id),
            };
            vensure!(total == infos.len(), "C11.service_total", "{} on node {}: service page total {} but {} entries", when, n.id, total, infos.len());
            let mut listed: BTreeMap<String, usize> = BTreeMap::new();
            for info in &infos {
                *listed.entry(info.service_name.as_ref().clone()).or_insert(0) += 1;
                if let Some(l) = all.get(info.service_name.as_str()) {
                    let healthy = l.iter().filter(|x| x.healthy).count();
                    vensure!(info.instance_size as usize == l.len(), "C11.instance_count", "{} on node {}: service {} reports instance_size {} but the instance query returns {} ({})", when, n.id, info.service_name, info.instance_size, l.len(), bk_sig(l));
                    vensure!(info.healthy_instance_size as usize == healthy, "C11.healthy_count", "{} on node {}: service {} reports healthy_instance_size {} but {} of its {} instances are healthy ({})", when, n.id, info.service_name, info.healthy_instance_size, healthy, l.len(), bk_sig(l));
                }
            }
            for (name, c) in &listed {
                vensure!(*c == 1, "C11.listed_twice", "{} on node {}: service {} is listed {} times", when, n.id, name, c);
            }
            for (name, l) in &all {
                if !l.is_empty() {
                    vensure!(listed.contains_key(name), "C11.service_not_listed", "{} on node {}: service {} has {} instances but is not in the service listing", when, n.id, name, l.len());
                }
                if st.prev_listed.contains(name) && !listed.contains_key(name) {
                    vensure!(st.prev_count.get(name).copied().unwrap_or(0) == 0, "C11.service_dropped_with_instances", "{} on node {}: service {} disappeared from the listing although it had {} instances at the previous observation", when, n.id, name, st.prev_count[name]);
                }
            }
            new_listed = listed.keys().cloned().collect();
            if let Ok(Ok(NamingResult::ClientInstanceCount(list))) = n.app.naming_addr.send(NamingCmd::QueryClientInstanceCount).await {
                for (client, cnt) in list {
                    let real = all.values().flatten().filter(|x| x.client_id.as_str() == client.as_str()).count();
                    vensure!(cnt <= real, "C11.client_instance_count", "{} on node {}: {} instances are recorded for client {} but {} instances carry that client id", when, n.id, cnt, client, real);
                }
            }
            for (name, l) in &all {
                let protect = l.iter().any(|x| x.enabled) && !l.iter().any(|x| x.enabled && x.healthy);
                for only_healthy in [true, false] {
                    let q = match n.app.naming_addr.send(NamingCmd::QueryList(skey(name), String::new(), only_healthy, None)).await {
                        Ok(Ok(NamingResult::InstanceList(l))) => l,
                        _ => vfail!("C11.query_failed", "QueryList failed on node {}", n.id),
                    };
                    let want: BTreeSet<String> = l.iter().filter(|x| x.enabled && (!only_healthy || x.healthy || protect)).map(|x| x.ip.as_ref().clone()).collect();
                    let got: BTreeSet<String> = q.iter().map(|x| x.ip.as_ref().clone()).collect();
                    vensure!(got == want, "C11.filtered_query", "{} on node {}: query (healthy only: {}) for {} returns {:?}, the enabled{} instances are {:?}", when, n.id, only_healthy, name, got, if only_healthy { " and healthy" } else { "" }, want);
                }
            }
            if persist {
                let recs = snapshot_records(n, "bk").await.map_err(|e| Violation::new("C11.observe_failed", e.to_string()))?;
                let persisted = recs.iter().filter(|r| r.0.contains("NAMING_INSTANCE")).count();
                let non_eph: usize = all.values().map(|l| l.iter().filter(|x| !x.ephemeral).count()).sum();
                vensure!(persisted == non_eph, "C11.persistent_set", "{} on node {}: {} persistent-instance records are written into a snapshot but {} non-ephemeral instances are registered", when, n.id, persisted, non_eph);
                sim::count("probe.persistent_set_checked_cluster", 1);
            }
            Ok(())
        }
        .await;
        let mut stable = true;
        for name in CSVCS.iter() {
            if bk_sig(&instances_on(n, name).await) != bk_sig(&all[*name]) {
                stable = false;
            }
        }
        if !stable && tries < 6 {
            sim::count("probe.observation_repeated", 1);
            continue;
        }
        res?;
        st.prev_listed = new_listed;
        st.prev_count = all.iter().map(|(k, v)| (k.clone(), v.len())).collect();
        sim::count("probe.cluster_bookkeeping_observations", 1);
        return Ok(());
    }
}

fn c_ip(i: u8) -> String {
    format!("10.7.0.{}", i % 5 + 1)
}
fn c_conn(node: u64, c: u8) -> String {
    format!("{}_10.3.{}.{}:4{}000", node, node, c % 2 + 1, c % 2 + 1)
}

async fn http_call(n: &NodeH, method: &str, uri: &str) -> (u16, String) {
    let app = api_app!(n);
    let r = call(&app, method, uri, &[], None).await;
    (r.status, r.text())
}

async fn grpc_instance(n: &NodeH, conn: &str, svc: &str, ip: &str, register: bool) -> bool {
    let req = json!({"namespace": NS, "serviceName": svc, "groupName": GROUP, "type": if register { "registerInstance" } else { "deregisterInstance" },
        "instance": {"ip": ip, "port": 8080, "weight": 1.0, "healthy": true, "enabled": true, "ephemeral": true, "clusterName": "DEFAULT", "metadata": {}}});
    let payload = PayloadUtils::build_payload("InstanceRequest", req.to_string());
    let meta = RequestMeta { connection_id: Arc::new(conn.to_string()), client_ip: "10.3.0.9".to_string(), ..Default::default() };
    n.invoker.handle(payload, meta).await.map(|r| r.success).unwrap_or(false)
}

/// what a node serves for a service: (ip, healthy, enabled, weight*100)
async fn served(n: &NodeH, svc: &str) -> BTreeSet<(String, bool, bool, u32)> {
    instances_on(n, svc).await.iter().map(|i| (i.ip.as_ref().clone(), i.healthy, i.enabled, (i.weight * 100.0) as u32)).collect()
}

pub async fn exec_c15(script: Value) -> ExecResult {
    exec_c15_mode(script, false).await
}

/// `bookkeeping` = C11's cluster scenario: the same cluster, operations and faults, but the oracle is C11's set of
/// per-node cross-invariants, evaluated on every live node after every step and every simulated second.
pub async fn exec_c15_mode(script: Value, bookkeeping: bool) -> ExecResult {
    let id = if bookkeeping { "C11" } else { "C15" };
    let seed = script["seed"].as_u64().unwrap_or(1);
    let cfg: NCfg = serde_json::from_value(script["cfg"].clone()).unwrap_or_default();
    let steps: Vec<CStep> = match serde_json::from_value(script["steps"].clone()) {
        Ok(s) => s,
        Err(e) => return ExecResult { violation: Some(Violation::new("harness.script", e.to_string())), info: RunInfo::default() },
    };
    let fault_net: NetCfg = serde_json::from_value(script["fault_net"].clone()).unwrap_or_default();
    tokio::fs::set_cfg(disk_cfg(&cfg));
    tokio::fs::with_disk(|d| {
        d.journal_on = false;
        d.log_ops = false;
    });
    net_reset(seed, cfg.net.clone());
    let root = run_root(seed);
    let nn = cfg.nodes.max(1);
    let mut digest = 0u64;
    let mut ops = 0u64;
    let mut findings: Vec<Violation> = vec![];
    let mut zombie: Option<Violation> = None;
    let mut overtaken: Option<Violation> = None;
    let mut stale_live: Option<Violation> = None;
    let r: VResult<()> = async {
        cluster_up(&root, &cfg, id).await?;
        advance(8_000).await;
        let all_ids: Vec<u64> = (1..=nn).collect();
        let pick_node = |x: u8| -> u64 { (x as u64 % nn) + 1 };
        // expectations kept by the harness: which HTTP instances keep beating (and through which nodes), which gRPC
        // instances are held by an open connection on a live node
        let mut http_alive: BTreeMap<(u8, u8), (bool, u8)> = BTreeMap::new(); // -> (enabled, weight)
        let mut grpc_alive: BTreeMap<(u8, u8), (u64, u8)> = BTreeMap::new(); // -> (node, conn)
        let mut killed: BTreeSet<u64> = BTreeSet::new();
        // keys whose state the harness does not know (an operation on them went unanswered)
        let mut unknown: BTreeSet<(u8, u8)> = BTreeSet::new();
        // every key that ever saw an HTTP operation; whether any fault was injected in this run
        let mut http_touched: BTreeSet<(u8, u8)> = BTreeSet::new();
        let mut faulted = false;
        // previous gRPC owners of a key: (node, connection, number of kills of that node when it registered). A hand-over is
        // exposed to the previous owner's delayed sync messages (F27) only if that owner's node has not been killed between
        // its registration and the new one: a killed incarnation sends nothing and a restarted node remembers nothing
        // ... and only while that owner's update can still be in flight: the 500 ms batch window plus delivery - without
        // injected faults 2 s, with them 12 s (a lost request is repeated once after the 3 s time-out, a slow one takes 2.5 s more)
        let mut owners_seen: BTreeMap<(u8, u8), BTreeMap<(u64, u8, u32), u64>> = BTreeMap::new();
        let mut kills: BTreeMap<u64, u32> = BTreeMap::new();
        let mut handed_risky: BTreeSet<(u8, u8)> = BTreeSet::new();
        // an address registered by a second connection while the first one is still open (take-over): connections that
        // registered a key, are still open and are not its current owner; take-overs with the previous owner, the time and
        // the time at which the previous owner's connection ended (if it did). As long as the previous owner's connection
        // stays open its node keeps reporting the address in its 12 s anti-entropy round, which (no versions, F27) overwrites
        // the newer registration; a take-over is exposed to that only if such a report was sent in between. Keys whose owner
        // went away while an older claimant was still open have no defined presence (the nodes must still agree)
        let mut claims: BTreeMap<(u8, u8), BTreeSet<(u64, u8)>> = BTreeMap::new();
        let mut takeovers: Vec<((u8, u8), (u64, u8), u64, Option<u64>)> = vec![];
        let mut ambiguous: BTreeSet<(u8, u8)> = BTreeSet::new();
        // when an HTTP address was last deregistered (us)
        let mut http_removed_at: BTreeMap<(u8, u8), u64> = BTreeMap::new();
        let mut rng = Rng::derive(seed, "C15.exec", 0);
        let mut last_beat = sim::now_us();
        let mut bk: BTreeMap<u64, BkState> = BTreeMap::new();
        let mut bk_obs = 0u64;
        macro_rules! bookkeeping {
            ($when:expr, $persist:expr) => {{
                if bookkeeping {
                    for x in all_ids.iter().filter(|x| !killed.contains(x)) {
                        if let Some(nh) = node(*x) {
                            bookkeeping_invariants(&nh, bk.entry(*x).or_default(), $when, $persist).await?;
                            bk_obs += 1;
                        }
                    }
                }
            }};
        }
        // heartbeats of the HTTP instances continue throughout (otherwise they legitimately expire)
        macro_rules! beats {
            () => {{
                if sim::now_us() >= last_beat + 4_000_000 {
                    last_beat = sim::now_us();
                    let live: Vec<u64> = all_ids.iter().filter(|x| !killed.contains(x)).cloned().collect();
                    for ((s, a), _) in http_alive.clone() {
                        let via = *rng.pick(&live);
                        let name = CSVCS[s as usize % 3];
                        let beat = json!({"ip": c_ip(a), "port": 8080, "serviceName": format!("{}@@{}", GROUP, name), "cluster": "DEFAULT", "weight": 1.0, "metadata": {}});
                        let q = format!("serviceName={}&namespaceId={}&groupName={}&ip={}&port=8080&beat={}", urlencode(&format!("{}@@{}", GROUP, name)), NS, GROUP, c_ip(a), urlencode(&beat.to_string()));
                        let _ = within(5_000, http_call(&node(via).unwrap(), "PUT", &format!("/nacos/v1/ns/instance/beat?{}", q))).await;
                    }
                }
            }};
        }
        macro_rules! adv {
            ($ms:expr) => {{
                let mut rest: u64 = $ms;
                loop {
                    let slice = rest.min(1000);
                    advance(slice).await;
                    rest -= slice;
                    beats!();
                    bookkeeping!(&format!("t={} ms", sim::now_us() / 1000), rest == 0 && slice >= 300);
                    if std::env::var("RNSIM_NM_DEBUG").is_ok() && (sim::now_us() / 1_000_000) % 3 == 0 {
                        for s in 0..3usize {
                            let mut line = format!("dbg t={} {}:", sim::now_us() / 1000, CSVCS[s]);
                            for x in &all_ids {
                                if killed.contains(x) {
                                    continue;
                                }
                                let l = instances_on(&node(*x).unwrap(), CSVCS[s]).await;
                                line.push_str(&format!(" n{}{:?}", x, l.iter().map(|i| format!("{}h{}fc{}g{}lm{}", i.ip.rsplit('.').next().unwrap_or(""), i.healthy as u8, i.from_cluster, i.from_grpc as u8, i.last_modified_millis % 1_000_000)).collect::<Vec<_>>()));
                            }
                            eprintln!("{}", line);
                        }
                    }
                    if rest == 0 {
                        break;
                    }
                }
            }};
        }
        macro_rules! grpc_reg {
            ($x:expr, $c:expr, $s:expr, $a:expr) => {{
                let (x, c, s, a): (u64, u8, u8, u8) = ($x, $c, $s, $a);
                if grpc_instance(&node(x).unwrap(), &c_conn(x, c), CSVCS[s as usize], &c_ip(a), true).await {
                    if let Some(o) = grpc_alive.get(&(s, a)).cloned() {
                        if o != (x, c) {
                            claims.entry((s, a)).or_default().insert(o);
                            takeovers.push(((s, a), o, sim::now_us(), None));
                        }
                    }
                    if let Some(cl) = claims.get_mut(&(s, a)) {
                        cl.remove(&(x, c));
                    }
                    ambiguous.remove(&(s, a));
                    grpc_alive.insert((s, a), (x, c));
                    let kx = kills.get(&x).copied().unwrap_or(0);
                    let prev = owners_seen.entry((s, a)).or_default();
                    let window_us: u64 = if faulted { 12_000_000 } else { 2_000_000 };
                    let now_us = sim::now_us();
                    if prev.iter().any(|((pn, pc, pk), t)| (*pn, *pc) != (x, c) && kills.get(pn).copied().unwrap_or(0) == *pk && now_us < *t + window_us) {
                        handed_risky.insert((s, a));
                    } else if prev.iter().any(|((pn, pc, pk), _)| (*pn, *pc) != (x, c) && kills.get(pn).copied().unwrap_or(0) != *pk) {
                        sim::count("probe.handover_after_owner_node_died", 1);
                    } else if prev.iter().any(|((pn, pc, _), _)| (*pn, *pc) != (x, c)) {
                        sim::count("probe.handover_after_previous_owner_went_quiet", 1);
                    }
                    prev.insert((x, c, kx), now_us);
                    ops += 1;
                }
            }};
        }
        for (i, st) in steps.iter().enumerate() {
            sim::event(&format!("step {} {}", i, serde_json::to_string(st).unwrap_or_default()));
            match st {
                CStep::HttpReg { node: x, svc, ip, enabled, weight } => {
                    let x = pick_node(*x);
                    if killed.contains(&x) {
                        continue;
                    }
                    let (s, a) = (*svc % 3, *ip % 5);
                    // (an address that an open gRPC connection holds or still claims is left to the gRPC clients)
                    if grpc_alive.contains_key(&(s, a)) || claims.get(&(s, a)).map(|c| !c.is_empty()).unwrap_or(false) {
                        continue;
                    }
                    let w = (*weight % 3) + 1;
                    http_touched.insert((s, a));
                    let q = format!("serviceName={}&ip={}&port=8080&namespaceId={}&groupName={}&enabled={}&weight={}", CSVCS[s as usize], c_ip(a), NS, GROUP, enabled, w);
                    if let Some((200, _)) = within(8_000, http_call(&node(x).unwrap(), "POST", &format!("/nacos/v1/ns/instance?{}", q))).await {
                        // the HTTP handler's update tag: a weight of 1 leaves the weight of an existing instance as it is
                        let w_eff = match http_alive.get(&(s, a)) {
                            Some((_, old_w)) if w == 1 => *old_w,
                            _ => w,
                        };
                        http_alive.insert((s, a), (*enabled, w_eff));
                        unknown.remove(&(s, a));
                        ops += 1;
                    } else {
                        // an unanswered registration may or may not have taken effect: make the outcome definite
                        http_alive.remove(&(s, a));
                        unknown.insert((s, a));
                        sim::count("probe.op_unanswered", 1);
                    }
                }
                CStep::HttpDereg { node: x, svc, ip } => {
                    let x = pick_node(*x);
                    if killed.contains(&x) {
                        continue;
                    }
                    let (s, a) = (*svc % 3, *ip % 5);
                    // (an address that an open gRPC connection holds or still claims is left to the gRPC clients)
                    if grpc_alive.contains_key(&(s, a)) || claims.get(&(s, a)).map(|c| !c.is_empty()).unwrap_or(false) {
                        continue;
                    }
                    http_touched.insert((s, a));
                    let q = format!("serviceName={}&ip={}&port=8080&namespaceId={}&groupName={}", CSVCS[s as usize], c_ip(a), NS, GROUP);
                    let res = within(8_000, http_call(&node(x).unwrap(), "DELETE", &format!("/nacos/v1/ns/instance?{}", q))).await;
                    http_alive.remove(&(s, a));
                    http_removed_at.insert((s, a), sim::now_us());
                    if matches!(res, Some((200, _))) {
                        unknown.remove(&(s, a));
                    } else {
                        unknown.insert((s, a));
                        sim::count("probe.op_unanswered", 1);
                    }
                    ops += 1;
                }
                CStep::GrpcReg { node: x, conn, svc, ip } => {
                    let x = pick_node(*x);
                    if killed.contains(&x) {
                        continue;
                    }
                    let (s, a) = (*svc % 3, *ip % 5);
                    if http_alive.contains_key(&(s, a)) {
                        continue;
                    }
                    // an address held by another open connection (on this or another node) is taken over: the newer
                    // registration owns it from now on, and the end of the previous owner's connection no longer removes it
                    if grpc_alive.get(&(s, a)).map(|o| *o != (x, *conn % 2)).unwrap_or(false) {
                        sim::count("probe.takeover_from_open_connection", 1);
                    }
                    grpc_reg!(x, *conn % 2, s, a);
                }
                CStep::Failover { node: x, to, conn, delay_ms } => {
                    // a node dies and the clients of its connections reconnect to another node and register again -
                    // before or after the survivors have declared the node dead (15 s)
                    let x = pick_node(*x);
                    let mut t = pick_node(*to);
                    if t == x {
                        t = x % nn + 1;
                    }
                    if !killed.is_empty() || nn < 2 {
                        continue;
                    }
                    let held: Vec<(u8, u8)> = grpc_alive.iter().filter(|(_, o)| o.0 == x).map(|(k, _)| *k).collect();
                    kill_node(x).await;
                    killed.insert(x);
                    *kills.entry(x).or_insert(0) += 1;
                    faulted = true;
                    sim::count("fault.kill", 1);
                    for (k, o) in grpc_alive.iter() {
                        if o.0 == x && claims.get(k).map(|c| c.iter().any(|p| p.0 != x)).unwrap_or(false) {
                            ambiguous.insert(*k);
                        }
                    }
                    grpc_alive.retain(|_, o| o.0 != x);
                    for c in claims.values_mut() {
                        c.retain(|p| p.0 != x);
                    }
                    for t in takeovers.iter_mut() {
                        if (t.1).0 == x && t.3.is_none() {
                            t.3 = Some(sim::now_us());
                        }
                    }
                    adv!(*delay_ms);
                    for (s, a) in held {
                        if http_alive.contains_key(&(s, a)) || grpc_alive.contains_key(&(s, a)) {
                            continue;
                        }
                        grpc_reg!(t, *conn % 2, s, a);
                        sim::count("probe.failover_reregistration", 1);
                    }
                }
                CStep::GrpcDereg { node: x, conn, svc, ip } => {
                    let x = pick_node(*x);
                    let (s, a) = (*svc % 3, *ip % 5);
                    if killed.contains(&x) || grpc_alive.get(&(s, a)) != Some(&(x, *conn % 2)) {
                        continue;
                    }
                    let _ = grpc_instance(&node(x).unwrap(), &c_conn(x, *conn), CSVCS[s as usize], &c_ip(a), false).await;
                    grpc_alive.remove(&(s, a));
                    if claims.get(&(s, a)).map(|c| !c.is_empty()).unwrap_or(false) {
                        ambiguous.insert((s, a));
                    }
                    ops += 1;
                }
                CStep::ConnClose { node: x, conn } => {
                    let x = pick_node(*x);
                    if killed.contains(&x) {
                        continue;
                    }
                    node(x).unwrap().app.bi_stream_manage.do_send(rnacos::grpc::bistream_manage::BiStreamManageCmd::ConnClose(Arc::new(c_conn(x, *conn))));
                    for (k, o) in grpc_alive.iter() {
                        if *o == (x, *conn % 2) && claims.get(k).map(|c| !c.is_empty()).unwrap_or(false) {
                            ambiguous.insert(*k);
                        }
                    }
                    grpc_alive.retain(|_, o| *o != (x, *conn % 2));
                    for c in claims.values_mut() {
                        c.remove(&(x, *conn % 2));
                    }
                    for t in takeovers.iter_mut() {
                        if t.1 == (x, *conn % 2) && t.3.is_none() {
                            t.3 = Some(sim::now_us());
                        }
                    }
                    ops += 1;
                    advance(20).await;
                }
                CStep::Advance { ms } => adv!(*ms),
                CStep::NetFaults { on } => {
                    net_set_cfg(if *on { fault_net.clone() } else { cfg.net.clone() });
                    if *on {
                        faulted = true;
                        sim::count("fault.net_faults_on", 1);
                    }
                }
                CStep::Cut { a, b } => {
                    let (a, b) = (pick_node(*a), pick_node(*b));
                    if a != b {
                        partition(a, b, true);
                        faulted = true;
                        sim::count("fault.partition", 1);
                    }
                }
                CStep::Heal => heal_all(),
                CStep::Kill { node: x } => {
                    let x = pick_node(*x);
                    // one node at a time, so that a majority (and somebody to talk to) remains
                    if killed.is_empty() {
                        kill_node(x).await;
                        killed.insert(x);
                        *kills.entry(x).or_insert(0) += 1;
                        faulted = true;
                        sim::count("fault.kill", 1);
                        // its connections die with it
                        for (k, o) in grpc_alive.iter() {
                            if o.0 == x && claims.get(k).map(|c| c.iter().any(|p| p.0 != x)).unwrap_or(false) {
                                ambiguous.insert(*k);
                            }
                        }
                        grpc_alive.retain(|_, o| o.0 != x);
                        for c in claims.values_mut() {
                            c.retain(|p| p.0 != x);
                        }
                        for t in takeovers.iter_mut() {
                            if (t.1).0 == x && t.3.is_none() {
                                t.3 = Some(sim::now_us());
                            }
                        }
                    }
                }
                CStep::Restart { node: x } => {
                    let x = pick_node(*x);
                    if killed.contains(&x) {
                        let via = all_ids.iter().find(|y| !killed.contains(y)).cloned().unwrap_or(1);
                        start_node(&root, x, x == 1, if x == 1 { None } else { Some(via) }, &cfg.node).await.map_err(|e| Violation::new("harness.start", e.to_string()))?;
                        killed.remove(&x);
                        bk.remove(&x);
                        sim::count("probe.node_rejoined", 1);
                    }
                }
                CStep::PersistReg { node: x, svc, ip } | CStep::PersistDereg { node: x, svc, ip } => {
                    let x = pick_node(*x);
                    if killed.contains(&x) {
                        continue;
                    }
                    let reg = matches!(st, CStep::PersistReg { .. });
                    let q = format!("serviceName={}&ip=10.7.1.{}&port=8080&namespaceId={}&groupName={}&ephemeral=false", CSVCS[*svc as usize % 3], ip % 3 + 1, NS, GROUP);
                    if let Some((200, _)) = within(8_000, http_call(&node(x).unwrap(), if reg { "POST" } else { "DELETE" }, &format!("/nacos/v1/ns/instance?{}", q))).await {
                        ops += 1;
                        sim::count("probe.cluster_persistent_op", 1);
                    }
                }
            }
            advance(3).await;
            beats!();
            bookkeeping!(&format!("after step {} ({:?})", i, st), false);
        }
        if bookkeeping {
            // quiescence, observed every second: time-outs of the dead nodes' clients, clean-up of empty services
            heal_all();
            net_set_cfg(cfg.net.clone());
            sim::event("quiescence");
            adv!(script["bound_ms"].as_u64().unwrap_or(40_000));
            bookkeeping!("at the end", true);
            digest = digest_str(&format!("{}", bk_obs));
            for x in all_ids.iter().filter(|x| !killed.contains(x)) {
                for name in CSVCS.iter() {
                    digest ^= digest_str(&bk_sig(&instances_on(&node(*x).unwrap(), name).await)).rotate_left(*x as u32);
                }
            }
            return Ok(());
        }
        // ---- quiescence: faults stop, heartbeats continue ----
        heal_all();
        net_set_cfg(cfg.net.clone());
        sim::event("quiescence");
        // B covers the 500 ms batch, 3 s ping / 15 s liveness, 12 s distro diff, 30 s push and 45 s pull of a
        // rejoined node, plus both time-outs for instances whose owner died
        let b_ms = script["bound_ms"].as_u64().unwrap_or(75_000);
        adv!(b_ms);
        let live: Vec<u64> = all_ids.iter().filter(|x| !killed.contains(x)).cloned().collect();
        {
            let distro = naming_distro_msg_times();
            let now_us = sim::now_us();
            for (k, prev, t0, t_end) in &takeovers {
                // (up to the end of the previous owner's connection: what its node sends afterwards is the removal, which a
                // receiver applies only to an instance that still belongs to that client)
                let end = t_end.unwrap_or(now_us);
                // (a message of the previous owner's node that mentions the address; the plain client report carries keys, not
                // addresses in this form, and counts whenever it was sent)
                let ipx = c_ip(k.1);
                // (a client report counts only in runs with injected faults)
                // In a run with injected faults (delay, loss with a repeat, duplication, partitions) any message of the previous
                // owner's node can arrive late, and a receiver that fetches what a client report names can overwrite the newer
                // registration with the fetched copy: every take-over counts as exposed there. Fault-free runs need the evidence.
                if faulted || distro.iter().any(|(src, t, ips, is_report)| *src == prev.0 && *t >= *t0 && *t <= end && ips.contains(&ipx) && !*is_report) {
                    handed_risky.insert(*k);
                    sim::count("probe.takeover_exposed_to_previous_owners_report", 1);
                } else {
                    sim::count("probe.takeover_previous_owner_left_before_its_next_report", 1);
                }
            }
        }
        let mut all_sets = vec![];
        for s in 0..3u8 {
            let name = CSVCS[s as usize];
            let mut per_node: BTreeMap<u64, BTreeSet<(String, bool, bool, u32)>> = BTreeMap::new();
            for x in &live {
                per_node.insert(*x, served(&node(*x).unwrap(), name).await);
            }
            // Recorded defects of the distro reconciliation (known findings, see DESIGN.md): once an HTTP-registered
            // address has been removed, deregistered or left without heartbeats while sync messages were lost, delayed,
            // duplicated or a node was down, (F25) the supervising node may never expire it because a sync refreshed its
            // time stamp without queueing a time-out, and (F26) stale copies on other nodes are never reconciled. Such
            // addresses are reported as findings and taken out of the comparison; in a run without any fault, and for every
            // other address, the full oracle applies.
            let gone_http: BTreeSet<String> = http_touched.iter().filter(|k| k.0 == s && !http_alive.contains_key(k) && !grpc_alive.contains_key(k)).map(|k| c_ip(k.1)).collect();
            // without injected faults the same staleness arises when a full-state message (answer to one of the snapshot
            // pulls 1 / 15 / 45 s after a node's start, or the push after 30 s) travels while the removal is being
            // propagated: the third node's copy comes back a millisecond after the removal
            let snap_times = naming_snapshot_msg_times();
            let raced: BTreeSet<String> = http_removed_at.iter().filter(|(k, t)| k.0 == s && snap_times.iter().any(|st| *st + 1_000_000 >= **t && *st <= **t + 2_000_000)).map(|(k, _)| c_ip(k.1)).collect();
            let gone_http: BTreeSet<String> = if faulted { gone_http } else { gone_http.intersection(&raced).cloned().collect() };
            if !gone_http.is_empty() {
                let still: Vec<&String> = gone_http.iter().filter(|ip| per_node.values().any(|v| v.iter().any(|e| &e.0 == *ip))).collect();
                if !still.is_empty() && zombie.is_none() {
                    zombie = Some(Violation::new("C15.removed_http_instance_still_served", format!("service {}: address(es) {:?} were registered over HTTP and then deregistered or left without heartbeats (an operation on them went unanswered) while faults were injected or a snapshot message was in flight; {} s after quiescence they are still served: {:?}", name, still, b_ms / 1000, per_node)));
                }
                for v in per_node.values_mut() {
                    v.retain(|e| !gone_http.contains(&e.0));
                }
            }
            // (F26, continued) sync messages that were lost are never repeated for HTTP instances (no anti-entropy apart from
            // the pulls right after a node's start): after injected loss / partitions / a node's absence the nodes may keep
            // different fields or different health for a *live* HTTP address as well (seen: seeds 202211, 203092)
            if faulted {
                let live_http: BTreeSet<String> = http_alive.keys().filter(|k| k.0 == s).map(|k| c_ip(k.1)).collect();
                let views: Vec<BTreeSet<(String, bool, bool, u32)>> = per_node.values().map(|v| v.iter().filter(|e| live_http.contains(&e.0)).cloned().collect()).collect();
                if views.iter().any(|v| *v != views[0]) {
                    if stale_live.is_none() {
                        stale_live = Some(Violation::new("C15.http_instance_not_reconciled_after_faults", format!("service {}: the nodes serve different fields or health for live HTTP address(es) {} s after the faults stopped (a sync message lost to an injected fault is never repeated): {:?}", name, b_ms / 1000, per_node)));
                    }
                    // keep presence comparable: compare these addresses by ip only
                    for v in per_node.values_mut() {
                        let repl: Vec<(String, bool, bool, u32)> = v.iter().filter(|e| live_http.contains(&e.0)).map(|e| (e.0.clone(), true, true, 0)).collect();
                        v.retain(|e| !live_http.contains(&e.0));
                        v.extend(repl);
                    }
                }
            }
            // (F27) an address that changed hands: the previous owner's delayed messages may overwrite the newer
            // registration's fields as well as delete it
            let handed: BTreeSet<String> = grpc_alive.keys().filter(|k| k.0 == s && (http_touched.contains(k) || handed_risky.contains(k))).chain(ambiguous.iter().filter(|k| k.0 == s)).map(|k| c_ip(k.1)).collect();
            if !handed.is_empty() {
                let views: Vec<BTreeSet<(String, bool, bool, u32)>> = per_node.values().map(|v| v.iter().filter(|e| handed.contains(&e.0)).cloned().collect()).collect();
                if views.iter().any(|v| *v != views[0]) {
                    if overtaken.is_none() {
                        overtaken = Some(Violation::new("C15.registration_deleted_by_stale_sync", format!("service {}: address(es) {:?} changed hands (registered by another client before, over HTTP or over gRPC on another node) and are now held by an open gRPC connection; the previous client's delayed update / removal sync overwrote the newer registration on some nodes: {:?}", name, handed, per_node)));
                    }
                    for v in per_node.values_mut() {
                        v.retain(|e| !handed.contains(&e.0));
                    }
                }
            }
            let first = per_node.values().next().cloned().unwrap_or_default();
            for (x, set) in &per_node {
                if *set != first {
                    let only_here: Vec<_> = set.difference(&first).collect();
                    let missing_here: Vec<_> = first.difference(set).collect();
                    vfail!("C15.nodes_disagree", "{} s after the last operation and fault, service {}: node {} serves {:?} but node {} serves {:?} (only on node {}: {:?}; missing there: {:?})", b_ms / 1000, name, live[0], first, x, set, x, only_here, missing_here);
                }
            }
            // the agreed set contains what must be there and nothing that must be gone
            let ips: BTreeSet<String> = first.iter().map(|e| e.0.clone()).collect();
            for ((ms, a), (enabled, w)) in &http_alive {
                if *ms == s {
                    vensure!(ips.contains(&c_ip(*a)), "C15.live_instance_missing", "service {}: the HTTP instance {} whose heartbeats never stopped is served by no node (all serve {:?})", name, c_ip(*a), first);
                    let e = first.iter().find(|e| e.0 == c_ip(*a)).unwrap();
                    vensure!(e.1, "C15.live_instance_unhealthy", "service {}: the HTTP instance {} whose heartbeats never stopped is served as unhealthy by all nodes", name, c_ip(*a));
                    let _ = (enabled, w);
                }
            }
            for ((ms, a), (x, c)) in &grpc_alive {
                if *ms == s {
                    if handed.contains(&c_ip(*a)) && !ips.contains(&c_ip(*a)) {
                        if overtaken.is_none() {
                            overtaken = Some(Violation::new("C15.registration_deleted_by_stale_sync", format!("service {}: the instance {} held by the open gRPC connection {} on live node {} is served by no node; the same address had been registered by another client before (over HTTP, or over gRPC on another node), and that client's delayed update / removal sync overwrote and deleted the newer registration", name, c_ip(*a), c_conn(*x, *c), x)));
                        }
                        continue;
                    }
                    vensure!(ips.contains(&c_ip(*a)), "C15.live_instance_missing", "service {}: the instance {} held by the open gRPC connection {} on live node {} is served by no node (all serve {:?})", name, c_ip(*a), c_conn(*x, *c), x, first);
                }
            }
            for e in &first {
                let a = (0..5u8).find(|a| c_ip(*a) == e.0).unwrap_or(9);
                let expected = http_alive.contains_key(&(s, a)) || grpc_alive.contains_key(&(s, a)) || ambiguous.contains(&(s, a));
                vensure!(expected, "C15.dead_instance_served", "service {}: {} is still served by every node {} s after quiescence although it was deregistered, its connection ended or its node died", name, e.0, b_ms / 1000);
            }
            all_sets.push(first);
        }
        digest = digest_str(&format!("{:?}", all_sets));
        Ok(())
    }
    .await;
    if let Some(z) = zombie {
        findings.push(z);
    }
    if let Some(z) = overtaken {
        findings.push(z);
    }
    if let Some(z) = stale_live {
        findings.push(z);
    }

    let info = RunInfo { digest, nontrivial: ops >= 4, info: json!({"ops": ops}), findings };
    for n in live_nodes() {
        kill_node(n.id).await;
    }
    ExecResult { violation: r.err(), info }
}

/// script of C11's cluster scenario: C15's generator plus persistent-instance operations
pub fn gen_c11_cluster(seed: u64) -> Value {
    let mut v = C15.generate(seed ^ 0x11c1, Tier::Quick);
    let mut rng = Rng::derive(seed, "C11c.gen", 0);
    let mut steps: Vec<CStep> = serde_json::from_value(v["steps"].clone()).unwrap_or_default();
    let extra = rng.range(0, 6);
    for _ in 0..extra {
        let at = rng.below(steps.len() as u64 + 1) as usize;
        let (node, svc, ip) = (rng.below(3) as u8, rng.below(3) as u8, rng.below(3) as u8);
        steps.insert(at, if rng.chance(0.7) { CStep::PersistReg { node, svc, ip } } else { CStep::PersistDereg { node, svc, ip } });
    }
    v["steps"] = serde_json::to_value(&steps).unwrap();
    v["check"] = json!("C11");
    v["cluster"] = json!(true);
    v["seed"] = json!(seed);
    v["bound_ms"] = json!(*rng.pick(&[20_000u64, 40_000, 60_000]));
    v
}

pub struct C15;
impl Check for C15 {
    fn id(&self) -> &'static str {
        "C15"
    }
    fn generate(&self, seed: u64, _tier: Tier) -> Value {
        let mut rng = Rng::derive(seed, "C15.gen", 0);
        let mut cfg = NCfg::default();
        cfg.nodes = 3;
        cfg.node.snapshot_log_size = 10_000;
        cfg.node.naming_health_timeout = rng.range(5, 12) * 1000;
        cfg.node.naming_instance_timeout = cfg.node.naming_health_timeout + rng.range(5, 10) * 1000;
        // swarm: which fault kinds this run uses
        let use_net = rng.chance(0.5);
        let use_cut = rng.chance(0.3);
        let use_kill = rng.chance(0.4);
        let fault_net = NetCfg { p_drop_req: *rng.pick(&[0.0, 0.05, 0.2]), p_drop_resp: *rng.pick(&[0.0, 0.05]), p_dup: *rng.pick(&[0.0, 0.1]), p_slow: *rng.pick(&[0.0, 0.1, 0.3]), slow_max_ms: 2500, faults_only: "NamingRoute".to_string(), ..NetCfg::default() };
        let n = rng.range(6, 40);
        let mut steps = vec![];
        for _ in 0..n {
            let r = rng.below(100);
            let node = rng.below(3) as u8;
            let svc = rng.below(3) as u8;
            let ip = rng.below(5) as u8;
            let conn = rng.below(2) as u8;
            let st = if r < 25 {
                CStep::HttpReg { node, svc, ip, enabled: rng.chance(0.85), weight: rng.below(3) as u8 }
            } else if r < 33 {
                CStep::HttpDereg { node, svc, ip }
            } else if r < 55 {
                CStep::GrpcReg { node, conn, svc, ip }
            } else if r < 62 {
                CStep::GrpcDereg { node, conn, svc, ip }
            } else if r < 68 {
                CStep::ConnClose { node, conn }
            } else if r < 80 {
                CStep::Advance { ms: *rng.pick(&[50u64, 300, 600, 2000, 6000, 16000]) }
            } else if r < 86 && use_net {
                CStep::NetFaults { on: rng.chance(0.6) }
            } else if r < 90 && use_cut {
                if rng.chance(0.6) { CStep::Cut { a: node, b: rng.below(3) as u8 } } else { CStep::Heal }
            } else if r < 95 && use_kill {
                let k = rng.below(100);
                if k < 35 {
                    CStep::Kill { node }
                } else if k < 55 {
                    CStep::Failover { node, to: rng.below(3) as u8, conn, delay_ms: *rng.pick(&[50u64, 1000, 5000, 12000, 20000]) }
                } else {
                    CStep::Restart { node }
                }
            } else {
                CStep::Advance { ms: 100 }
            };
            steps.push(st);
        }
        // a third of the runs: an address moves from a connection on one node to a connection on another node while the
        // first is still open, and the first connection ends shortly afterwards (the newer registration must survive that)
        let mut rt = Rng::derive(seed, "C15.takeover", 0);
        if rt.chance(0.33) {
            let (a, b) = (rt.below(3) as u8, rt.below(2) as u8 + 1);
            let (svc, ip, c1, c2) = (rt.below(3) as u8, rt.below(5) as u8, rt.below(2) as u8, rt.below(2) as u8);
            let seq = vec![
                CStep::GrpcReg { node: a, conn: c1, svc, ip },
                CStep::Advance { ms: *rt.pick(&[2500u64, 4000, 7000]) },
                CStep::GrpcReg { node: (a + b) % 3, conn: c2, svc, ip },
                CStep::Advance { ms: *rt.pick(&[700u64, 1500, 3000, 6000]) },
                CStep::ConnClose { node: a, conn: c1 },
            ];
            let at = rt.below(steps.len() as u64 + 1) as usize;
            for (i, st) in seq.into_iter().enumerate() {
                steps.insert(at + i, st);
            }
        }
        json!({"check": "C15", "seed": seed, "cfg": cfg, "fault_net": fault_net, "bound_ms": 75_000, "steps": steps})
    }
    fn execute(&self, script: Value) -> LocalFut<ExecResult> {
        Box::pin(exec_c15(script))
    }
}

// ---------------------------------------------------------------------------
// C13, cluster scenario: heartbeat expiry "on the node responsible and then everywhere", take-over after a node failure
// ---------------------------------------------------------------------------
#[derive(Serialize, Deserialize, Clone, Debug)]
pub struct TInst {
    pub svc: u8,
    pub ip: u8,
    pub via: u8,
    pub reg_at_ms: u64,
    /// the client stops heart-beating this long after the registration (None: beats until the end)
    pub silent_after_ms: Option<u64>,
}

pub async fn exec_c13_cluster(script: Value) -> ExecResult {
    let id = "C13";
    let seed = script["seed"].as_u64().unwrap_or(1);
    let cfg: NCfg = serde_json::from_value(script["cfg"].clone()).unwrap_or_default();
    let insts: Vec<TInst> = serde_json::from_value(script["insts"].clone()).unwrap_or_default();
    let kill: Option<(u64, u64)> = script["kill"].as_object().map(|k| (k["node"].as_u64().unwrap_or(1), k["at_ms"].as_u64().unwrap_or(0)));
    let total_ms = script["total_ms"].as_u64().unwrap_or(90_000);
    tokio::fs::set_cfg(disk_cfg(&cfg));
    tokio::fs::with_disk(|d| {
        d.journal_on = false;
        d.log_ops = false;
    });
    net_reset(seed, cfg.net.clone());
    let root = run_root(seed);
    let nn = cfg.nodes.max(2);
    let h_ms = cfg.node.naming_health_timeout + 3000;
    let r_ms = cfg.node.naming_instance_timeout + 3000;
    let mut findings: Vec<Violation> = vec![];
    let mut observations = 0u64;
    let r: VResult<()> = async {
        cluster_up(&root, &cfg, id).await?;
        advance(8_000).await;
        let t0 = sim::now_us() / 1000;
        let all_ids: Vec<u64> = (1..=nn).collect();
        let mut rng = Rng::derive(seed, "C13c.exec", 0);
        let mut killed: Option<(u64, u64)> = None; // (node, at absolute ms)
        // per instance: registered?, last successful registration / beat (absolute ms), gone from the model
        let mut reg: Vec<Option<u64>> = vec![None; insts.len()];
        let mut last_ok: Vec<u64> = vec![0; insts.len()];
        let mut last_beat_try: Vec<u64> = vec![0; insts.len()];
        let mut done: Vec<bool> = vec![false; insts.len()];
        // per address: (first accepted registration, last accepted heartbeat, start of the current gap-free
        // heartbeat series); a revived instance becomes healthy on the other nodes only with the next 15 s beat batch
        let mut addr: BTreeMap<(u8, u8), (u64, u64, u64)> = BTreeMap::new();
        let name_of = |t: &TInst| format!("hb-{}", t.svc % 3);
        let ip_of = |t: &TInst| format!("10.6.0.{}", t.ip % 6 + 1);
        let mut t = 0u64;
        while t < total_ms {
            let now = sim::now_us() / 1000;
            let live: Vec<u64> = all_ids.iter().filter(|x| killed.map(|k| k.0 != **x).unwrap_or(true)).cloned().collect();
            if let (Some((kn, at)), None) = (kill, killed) {
                if t >= at {
                    kill_node(kn).await;
                    killed = Some((kn, now));
                    sim::count("fault.kill", 1);
                    continue;
                }
            }
            for (j, ti) in insts.iter().enumerate() {
                if reg[j].is_none() && t >= ti.reg_at_ms {
                    let via = live[(ti.via as usize) % live.len()];
                    let (st, _) = within(8_000, http_register(&node(via).unwrap(), &name_of(ti), &ip_of(ti))).await.unwrap_or((0, String::new()));
                    if st == 200 {
                        reg[j] = Some(now);
                        last_ok[j] = now;
                        last_beat_try[j] = now;
                        let e = addr.entry((ti.svc % 3, ti.ip % 6)).or_insert((now, now, now));
                        if now.saturating_sub(e.1) + 1500 > h_ms {
                            e.2 = now;
                        }
                        e.1 = now;
                    } else {
                        // the registration was refused (e.g. routed to a node that just died): the client does not exist
                        reg[j] = Some(0);
                        done[j] = true;
                    }
                } else if let Some(r0) = reg[j] {
                    let beating = !done[j] && ti.silent_after_ms.map(|s| now < r0 + s).unwrap_or(true);
                    if beating && now >= last_beat_try[j] + 3_000 {
                        last_beat_try[j] = now;
                        // an SDK retries a failed beat on another server
                        for attempt in 0..2 {
                            let via = live[(rng.below(live.len() as u64) as usize + attempt) % live.len()];
                            let name = name_of(ti);
                            let beat = json!({"ip": ip_of(ti), "port": 8080, "serviceName": format!("{}@@{}", GROUP, name), "cluster": "DEFAULT", "weight": 1.0, "metadata": {}});
                            let q = format!("serviceName={}&namespaceId={}&groupName={}&ip={}&port=8080&beat={}", urlencode(&format!("{}@@{}", GROUP, name)), NS, GROUP, ip_of(ti), urlencode(&beat.to_string()));
                            if let Some((200, _)) = within(5_000, http_call(&node(via).unwrap(), "PUT", &format!("/nacos/v1/ns/instance/beat?{}", q))).await {
                                let tn = sim::now_us() / 1000;
                                last_ok[j] = tn;
                                let e = addr.entry((ti.svc % 3, ti.ip % 6)).or_insert((tn, tn, tn));
                                if tn.saturating_sub(e.1) + 1500 > h_ms {
                                    e.2 = tn;
                                }
                                e.1 = tn;
                                break;
                            }
                        }
                    }
                }
            }
            advance(1_000).await;
            t = sim::now_us() / 1000 - t0;
            observations += 1;
            let now = sim::now_us() / 1000;
            let live: Vec<u64> = all_ids.iter().filter(|x| killed.map(|k| k.0 != **x).unwrap_or(true)).cloned().collect();
            // after a node failure its services are taken over once the 15 s liveness timer has fired
            let in_kill_window = killed.map(|k| now < k.1 + 25_000).unwrap_or(false);
            for (j, ti) in insts.iter().enumerate() {
                let r0 = match reg[j] {
                    Some(r0) if r0 > 0 => r0,
                    _ => continue,
                };
                if done[j] {
                    continue;
                }
                // two scripted clients may share an address: the younger heartbeat counts
                let newest = insts.iter().enumerate().filter(|(k, o)| o.svc % 3 == ti.svc % 3 && o.ip % 6 == ti.ip % 6 && reg[*k].map(|x| x > 0).unwrap_or(false)).map(|(k, _)| last_ok[k]).max().unwrap_or(last_ok[j]);
                let base = killed.map(|k| newest.max(k.1 + 20_000)).unwrap_or(newest);
                let age = now.saturating_sub(newest);
                let silent_for = now.saturating_sub(base);
                let mut states = vec![];
                let mut unrefreshed_owner: Vec<(u64, bool, u64)> = vec![];
                for x in &live {
                    let l = instances_on(&node(*x).unwrap(), &name_of(ti)).await;
                    states.push((*x, l.iter().find(|i| i.ip.as_str() == ip_of(ti)).map(|i| (i.healthy, i.from_cluster))));
                    // the node that supervises the instance (holds it as its own) and has not seen anything newer than the
                    // client's last accepted heartbeat: the recorded defect F25 (a sync echo refreshed the time stamp without
                    // queueing a time-out) cannot be what keeps the instance alive there
                    if let Some(i) = l.iter().find(|i| i.ip.as_str() == ip_of(ti)) {
                        // (the registry's time stamps are wall-clock ms = EPOCH0 + simulated time)
                        let lm = (i.last_modified_millis as u64).saturating_sub(crate::interpose::EPOCH0_NS / 1_000_000);
                        if i.from_cluster == 0 && killed.is_none() && lm <= newest + 200 && i.ephemeral && !i.from_grpc {
                            unrefreshed_owner.push((*x, i.healthy, lm));
                        }
                    }
                }
                let _ = r0;
                let (first_reg, _, cont_since) = addr.get(&(ti.svc % 3, ti.ip % 6)).cloned().unwrap_or((newest, newest, newest));
                let settled = if cont_since == first_reg { now > cont_since + 2_500 } else { now > cont_since + 20_000 };
                if age + 1500 < h_ms && !in_kill_window && settled {
                    // heartbeats keep arriving: present and healthy everywhere
                    for (x, st) in &states {
                        if killed.is_some() && !matches!(st, Some((true, _))) {
                            // recorded defect (supervision hand-over): after a node failure moved the service to another
                            // survivor, the previous owner keeps its time-out entries and expires the instance although
                            // its heartbeats arrive at the new owner
                            let v = Violation::new("C13.beating_instance_expired_after_range_change", format!("cluster of {}: {} of {} is {} by node {} {} ms after its last accepted heartbeat (health time-out {} ms, instance time-out {} ms); node {} was killed {} ms ago and the ownership ranges of the survivors changed", nn, ip_of(ti), name_of(ti), if st.is_some() { "served as unhealthy" } else { "not served" }, x, age, h_ms, r_ms, killed.unwrap().0, now - killed.unwrap().1));
                            if !findings.iter().any(|f| f.clause == v.clause) {
                                findings.push(v);
                            }
                            continue;
                        }
                        match st {
                            Some((true, _)) => {}
                            Some((false, _)) => vfail!("C13.unhealthy_while_beating", "cluster of {}: {} of {} is served as unhealthy by node {} {} ms after its last accepted heartbeat (health time-out {} ms){}", nn, ip_of(ti), name_of(ti), x, age, h_ms, killed.map(|k| format!("; node {} was killed {} ms ago", k.0, now - k.1)).unwrap_or_default()),
                            None => vfail!("C13.removed_while_beating", "cluster of {}: {} of {} is not served by node {} {} ms after its last accepted heartbeat (instance time-out {} ms){}", nn, ip_of(ti), name_of(ti), x, age, r_ms, killed.map(|k| format!("; node {} was killed {} ms ago", k.0, now - k.1)).unwrap_or_default()),
                        }
                    }
                }
                if silent_for > h_ms + 8_000 {
                    for (x, healthy, lm) in &unrefreshed_owner {
                        if *healthy {
                            vfail!("C13.cluster_owner_did_not_mark_unhealthy", "cluster of {}: node {} supervises {} of {} itself (from_cluster=0), has seen nothing of it after the client's last accepted heartbeat (time stamp {} ms, last heartbeat {} ms) and still serves it as healthy {} ms later (health time-out {} ms)", nn, x, ip_of(ti), name_of(ti), lm, newest, age, h_ms);
                        }
                    }
                    for (x, st) in &states {
                        if let Some((true, fc)) = st {
                            let v = Violation::new("C13.cluster_silent_still_healthy", format!("cluster of {}: {} of {} is still served as healthy by node {} (from_cluster={}) {} ms after its last heartbeat (health time-out {} ms){}", nn, ip_of(ti), name_of(ti), x, fc, age, h_ms, killed.map(|k| format!("; node {} was killed {} ms ago", k.0, now - k.1)).unwrap_or_default()));
                            if !findings.iter().any(|f| f.clause == v.clause) {
                                findings.push(v);
                            }
                        }
                    }
                }
                if silent_for > r_ms + 10_000 {
                    if let Some((x, _, lm)) = unrefreshed_owner.first() {
                        vfail!("C13.cluster_owner_did_not_remove", "cluster of {}: node {} supervises {} of {} itself (from_cluster=0), has seen nothing of it after the client's last accepted heartbeat (time stamp {} ms, last heartbeat {} ms) and still serves it {} ms later (instance time-out {} ms)", nn, x, ip_of(ti), name_of(ti), lm, newest, age, r_ms);
                    }
                    let holders: Vec<String> = states.iter().filter_map(|(x, st)| st.map(|(h, fc)| format!("node {} (healthy={}, from_cluster={})", x, h, fc))).collect();
                    if !holders.is_empty() {
                        let v = Violation::new("C13.cluster_silent_not_removed", format!("cluster of {}: {} of {} is still served {} ms after its last heartbeat by {} (health time-out {} ms, instance time-out {} ms){}", nn, ip_of(ti), name_of(ti), age, holders.join(", "), h_ms, r_ms, killed.map(|k| format!("; node {} was killed {} ms ago", k.0, now - k.1)).unwrap_or_default()));
                        if !findings.iter().any(|f| f.clause == v.clause) {
                            findings.push(v);
                        }
                    } else {
                        sim::count("probe.cluster_silent_expired_everywhere", 1);
                    }
                    done[j] = true;
                }
            }
        }
        Ok(())
    }
    .await;
    let info = RunInfo { digest: digest_str(&format!("{:?}", findings.iter().map(|f| f.clause.clone()).collect::<Vec<_>>())), nontrivial: observations >= 5, info: json!({"observations": observations, "cluster": nn}), findings };
    for n in live_nodes() {
        kill_node(n.id).await;
    }
    ExecResult { violation: r.err(), info }
}

pub fn gen_c13_cluster(seed: u64) -> Value {
    let mut rng = Rng::derive(seed, "C13c.gen", 0);
    let mut cfg = NCfg::default();
    cfg.nodes = rng.range(2, 3);
    cfg.node.snapshot_log_size = 10_000;
    cfg.node.naming_health_timeout = rng.range(3, 8) * 1000;
    cfg.node.naming_instance_timeout = cfg.node.naming_health_timeout + rng.range(5, 12) * 1000;
    let k = rng.range(2, 7);
    let insts: Vec<TInst> = (0..k)
        .map(|_| TInst { svc: rng.below(3) as u8, ip: rng.below(6) as u8, via: rng.below(3) as u8, reg_at_ms: rng.range(0, 30_000), silent_after_ms: if rng.chance(0.6) { Some(rng.range(0, 40_000)) } else { None } })
        .collect();
    let kill = if cfg.nodes == 3 && rng.chance(0.4) { json!({"node": rng.range(1, 3), "at_ms": rng.range(2_000, 40_000)}) } else { Value::Null };
    json!({"check": "C13", "seed": seed, "cluster": true, "cfg": cfg, "insts": insts, "kill": kill, "total_ms": 110_000, "steps": []})
}
