//! C16 (OpenAPI authentication on the SDK port and the gRPC port) and C17 (console login and roles).
//! The route x method x carrier products are finite sweeps; they are run inside simulated situations:
//! token expiry on the simulated clock, a token presented on another node, a restart from a snapshot
//! taken while the token was alive, the leader down.
use crate::checks_n::{cluster_up, disk_cfg, observe, obs_diff, NCfg};
use crate::core::*;
use crate::http::*;
use crate::rig_n::*;
use crate::{api_app, console_app, vensure, vfail};
use actix_web::web::Data;
use actix_web::App;
use async_raft_ext::RaftStorage;
use rnacos::console::middle::login_middle::CheckLogin;
use rnacos::grpc::handler::InvokerHandler;
use rnacos::grpc::server::RequestServerImpl;
use rnacos::grpc::PayloadUtils;
use rnacos::openapi::middle::auth_middle::ApiCheckAuth;
use rnacos::web_config::{app_config, console_config};
use serde_json::{json, Value};
use std::collections::{BTreeMap, BTreeSet};
use std::ops::Deref;
use std::sync::Arc;
use tokio::sim::{self, Rng};

pub const METHODS: [&str; 5] = ["GET", "POST", "PUT", "DELETE", "PATCH"];

/// Every string literal in /repo/src that looks like a path ("/..."), read from the working tree.
pub fn path_literals() -> Vec<String> {
    fn walk(dir: &std::path::Path, out: &mut Vec<std::path::PathBuf>) {
        if let Ok(rd) = std::fs::read_dir(dir) {
            let mut es: Vec<_> = rd.filter_map(|e| e.ok()).map(|e| e.path()).collect();
            es.sort();
            for p in es {
                if p.is_dir() {
                    walk(&p, out);
                } else if p.extension().map(|e| e == "rs").unwrap_or(false) {
                    out.push(p);
                }
            }
        }
    }
    let mut files = vec![];
    walk(std::path::Path::new("/repo/src"), &mut files);
    let mut set = BTreeSet::new();
    for f in files {
        if let Ok(txt) = std::fs::read_to_string(&f) {
            let b = txt.as_bytes();
            let mut i = 0;
            while i + 1 < b.len() {
                if b[i] == b'"' && b[i + 1] == b'/' {
                    let mut j = i + 1;
                    while j < b.len() && b[j] != b'"' && b[j] != b'\n' {
                        j += 1;
                    }
                    if j < b.len() && b[j] == b'"' {
                        let lit = &txt[i + 1..j];
                        if lit.len() < 120 && lit.bytes().all(|c| c.is_ascii_alphanumeric() || b"/_-.{}:*".contains(&c)) {
                            set.insert(lit.to_string());
                        }
                    }
                    i = j + 1;
                } else {
                    i += 1;
                }
            }
        }
    }
    set.into_iter().collect()
}

/// Replace actix path parameters by a concrete segment.
fn concretise(p: &str) -> String {
    let mut out = String::new();
    let mut depth = 0;
    for c in p.chars() {
        match c {
            '{' => {
                if depth == 0 {
                    out.push_str("x1");
                }
                depth += 1;
            }
            '}' => depth -= 1,
            _ if depth == 0 => out.push(c),
            _ => {}
        }
    }
    out
}

/// Candidate paths: every literal, every prefix-literal + literal, and "/nacos" + "/v*" literal + literal.
pub fn candidate_paths(lits: &[String], roots: &[&str]) -> Vec<String> {
    let mut set = BTreeSet::new();
    let prefixes: Vec<&String> = lits.iter().filter(|l| roots.iter().any(|r| l.starts_with(r))).collect();
    let versions: Vec<&String> = lits.iter().filter(|l| l.starts_with("/v1") || l.starts_with("/v2") || l.starts_with("/v3")).collect();
    for l in lits {
        set.insert(concretise(l));
        for p in &prefixes {
            set.insert(concretise(&format!("{}{}", p, l)));
        }
        for v in &versions {
            set.insert(concretise(&format!("/nacos{}{}", v, l)));
        }
    }
    set.into_iter().filter(|p| p.starts_with('/') && !p.contains("//")).collect()
}

async fn login_api(n: &NodeH, user: &str, pass: &str) -> Option<String> {
    let app = api_app!(n);
    let body = format!("username={}&password={}", user, pass);
    let r = call(&app, "POST", "/nacos/v1/auth/login", &[], Some(("application/x-www-form-urlencoded", body.into_bytes()))).await;
    if r.status != 200 {
        return None;
    }
    serde_json::from_slice::<Value>(&r.body).ok().and_then(|v| v["accessToken"].as_str().map(|s| s.to_string()))
}

fn exempt_api(path: &str) -> bool {
    ["/nacos/v1/auth/login", "/nacos/v1/auth/users/login", "/nacos/v3/auth/user/login", "/rnacos/v1/auth/user/login", "/nacos/metrics", "/nacos/v1/raft/close-write"].contains(&path)
}

/// Is the path (as the router decodes it) inside the statement's scope?
fn in_scope_api(decoded: &str) -> bool {
    let l = decoded.to_ascii_lowercase();
    l.starts_with("/nacos/") || l.starts_with("/rnacos/v1/")
}

fn pct_decode(p: &str) -> String {
    let b = p.as_bytes();
    let mut out = vec![];
    let mut i = 0;
    while i < b.len() {
        if b[i] == b'%' && i + 2 < b.len() + 0 && i + 2 <= b.len() - 1 + 0 {
            if let Ok(v) = u8::from_str_radix(&p[i + 1..i + 3], 16) {
                out.push(v);
                i += 3;
                continue;
            }
        }
        out.push(b[i]);
        i += 1;
    }
    String::from_utf8_lossy(&out).to_string()
}

/// spellings of a path that may still reach the same handler
fn spellings(path: &str, rng: &mut Rng) -> Vec<String> {
    let mut v = vec![];
    v.push(format!("{}/", path));
    v.push(format!("/{}", path));
    if let Some(pos) = path[1..].find('/') {
        v.push(format!("{}/{}", &path[..pos + 1], &path[pos + 1..]));
    }
    // upper-case prefix, upper-case everything
    v.push(path.to_ascii_uppercase());
    if path.len() > 7 {
        v.push(format!("{}{}", path[..7].to_ascii_uppercase(), &path[7..]));
    }
    // percent-encode one letter (unreserved characters are decoded by the router)
    let letters: Vec<usize> = path.char_indices().filter(|(_, c)| c.is_ascii_alphabetic()).map(|(i, _)| i).collect();
    if !letters.is_empty() {
        for _ in 0..2 {
            let i = letters[rng.below(letters.len() as u64) as usize];
            v.push(format!("{}%{:02x}{}", &path[..i], path.as_bytes()[i], &path[i + 1..]));
        }
        let i = letters[0];
        v.push(format!("{}%{:02X}{}", &path[..i], path.as_bytes()[i], &path[i + 1..]));
    }
    // encoded slash, matrix parameter, dot segment
    if let Some(pos) = path[1..].find('/') {
        v.push(format!("{}%2F{}", &path[..pos + 1], &path[pos + 2..]));
        v.push(format!("{}/.{}", &path[..pos + 1], &path[pos + 1..]));
    }
    v.push(format!("{};x=1", path));
    v
}

#[derive(Clone, Debug)]
struct Tok {
    label: &'static str,
    value: String,
}

/// (headers, query suffix, form body) for a token value through carrier `c`
fn carrier(c: u64, tv: &str) -> (Vec<(String, String)>, String, Option<String>, &'static str) {
    match c % 7 {
        0 => (vec![("Authorization".into(), tv.into())], String::new(), None, "Authorization"),
        1 => (vec![("Authorization".into(), format!("Bearer {}", tv))], String::new(), None, "Authorization: Bearer"),
        2 => (vec![("authorization".into(), format!("bEaReR\t{}", tv))], String::new(), None, "authorization: bEaReR<tab>"),
        3 => (vec![("accessToken".into(), tv.into())], String::new(), None, "accessToken header"),
        4 => (vec![], format!("accessToken={}", urlencode(tv)), None, "accessToken query"),
        5 => (vec![], String::new(), Some(format!("accessToken={}", urlencode(tv))), "accessToken form body"),
        _ => (vec![("AccessToken".into(), tv.into()), ("Authorization".into(), String::new())], String::new(), None, "empty Authorization + AccessToken header"),
    }
}

async fn call_with(app: &impl actix_web::dev::Service<actix_http::Request, Response = actix_web::dev::ServiceResponse<impl actix_web::body::MessageBody>, Error = actix_web::Error>, method: &str, path: &str, hdrs: &[(String, String)], query: &str, form: Option<String>) -> HttpResp {
    let uri = if query.is_empty() { path.to_string() } else { format!("{}?{}", path, query) };
    let h: Vec<(&str, &str)> = hdrs.iter().map(|(k, v)| (k.as_str(), v.as_str())).collect();
    let body = if method != "GET" { form.map(|f| ("application/x-www-form-urlencoded", f.into_bytes())) } else { None };
    call(app, method, &uri, &h, body).await
}

/// sessions and login limiters live in the replicated cache table and expire on their own while time passes
fn strip_cache(mut o: crate::checks_n::Obs) -> crate::checks_n::Obs {
    o.records.retain(|r| !r.0.contains("CACHE"));
    o
}

fn grpc_server(n: &NodeH) -> RequestServerImpl {
    let mut invoker = InvokerHandler::new(n.app.clone());
    invoker.add_config_handler(&n.app);
    invoker.add_naming_handler(&n.app);
    invoker.add_raft_handler(&n.app);
    RequestServerImpl::new(n.app.clone(), invoker)
}

/// request type names that appear in the gRPC handler sources
pub fn grpc_request_types() -> Vec<String> {
    let mut set = BTreeSet::new();
    for dir in ["/repo/src/grpc/handler", "/repo/src/grpc"] {
        if let Ok(rd) = std::fs::read_dir(dir) {
            let mut es: Vec<_> = rd.filter_map(|e| e.ok()).map(|e| e.path()).collect();
            es.sort();
            for p in es {
                if let Ok(txt) = std::fs::read_to_string(&p) {
                    for part in txt.split('"') {
                        if part.ends_with("Request") && part.len() > 8 && part.chars().all(|c| c.is_ascii_alphanumeric()) {
                            set.insert(part.to_string());
                        }
                    }
                }
            }
        }
    }
    set.into_iter().collect()
}

async fn grpc_call(srv: &RequestServerImpl, ptype: &str, headers: &[(&str, &str)]) -> (String, i64, String) {
    let mut h = std::collections::HashMap::new();
    for (k, v) in headers {
        h.insert(k.to_string(), v.to_string());
    }
    let payload = PayloadUtils::build_full_payload(ptype, "{}".to_string(), "10.2.0.9", h);
    let meta = rnacos::grpc::RequestMeta { connection_id: Arc::new("1_10.2.0.9:40000".to_string()), client_ip: "10.2.0.9".to_string(), ..Default::default() };
    // hook H8: the real fill_token_session + InvokerHandler::handle (connection bookkeeping of request() left out)
    match srv.verif_dispatch(payload, meta).await {
        Ok(res) => {
            let p = res.payload;
            let t = PayloadUtils::get_payload_type(&p).map(|s| s.to_string()).unwrap_or_default();
            let body = p.body.map(|b| String::from_utf8_lossy(&b.value).to_string()).unwrap_or_default();
            let code = serde_json::from_str::<Value>(&body).ok().map(|v| v["errorCode"].as_i64().unwrap_or(0)).unwrap_or(0);
            (t, code, body)
        }
        Err(e) => ("HandlerError".to_string(), -1, e.to_string()),
    }
}

pub async fn exec_c16(script: Value) -> ExecResult {
    let id = "C16";
    let seed = script["seed"].as_u64().unwrap_or(1);
    let cfg: NCfg = serde_json::from_value(script["cfg"].clone()).unwrap_or_default();
    let situation = script["situation"].as_str().unwrap_or("single").to_string();
    let sample = script["sample"].as_u64().unwrap_or(100);
    tokio::fs::set_cfg(disk_cfg(&cfg));
    tokio::fs::with_disk(|d| {
        d.journal_on = false;
        d.log_ops = false;
    });
    net_reset(seed, cfg.net.clone());
    let root = run_root(seed);
    let ttl_ms = cfg.node.openapi_login_timeout as u64 * 1000;
    let mut digest = 0u64;
    let mut routes_checked = 0u64;
    let r: VResult<()> = async {
        let mut rng = Rng::derive(seed, "C16.exec", 0);
        // ---- the situation ----
        let nn = cfg.nodes.max(1);
        if nn > 1 {
            cluster_up(&root, &cfg, id).await?;
        } else {
            let n = start_node(&root, 1, true, None, &cfg.node).await.map_err(|e| Violation::new("harness.start", e.to_string()))?;
            vensure!(wait_leader(&n, 20_000).await.is_some(), "C16.no_leader", "single node did not become leader");
            advance(16_000).await;
        }
        let issuer = node(1).unwrap();
        let tok_old = login_api(&issuer, "admin", "admin").await.ok_or_else(|| Violation::new("harness.login", "login admin/admin refused".to_string()))?;
        let t_old = sim::now_us() / 1000;
        if situation == "snapshot_restart" {
            // a snapshot is taken while the token is alive; the node restarts from it; the token must still expire
            for k in 0..(cfg.node.snapshot_log_size + 8) {
                let req = rnacos::raft::cluster::model::SetConfigReq::new(crate::wl::cfg_key(0, 0, (k % 4) as u8), Arc::new(format!("v{}", k)));
                let _ = within(10_000, issuer.app.config_route.set_config(req)).await;
            }
            advance(2_000).await;
            let snap = match issuer.app.raft_store.get_current_snapshot().await {
                Ok(Some(s)) => s.index,
                _ => 0,
            };
            if snap > 0 {
                sim::count("probe.snapshot_while_token_alive", 1);
            }
            stop_node(1).await;
            let n = start_node(&root, 1, true, None, &cfg.node).await.map_err(|e| Violation::new("harness.start", e.to_string()))?;
            vensure!(wait_leader(&n, 20_000).await.is_some(), "C16.no_leader", "no leader after the restart");
            advance(13_000).await;
            sim::count("probe.restart_from_snapshot", 1);
        }
        // the old token expires on the simulated clock - while an SDK keeps using it over gRPC every two seconds on the node
        // that issued it (where that node is not restarted meanwhile): continuous use must not carry it past its expiry
        if situation == "single" || situation == "other_node" || situation == "leader_down" {
            let srv_keep = grpc_server(&node(1).unwrap());
            let mut served = 0u64;
            while sim::now_us() / 1000 - t_old < ttl_ms + 2_000 {
                let (pt, code, _) = grpc_call(&srv_keep, "ServiceListRequest", &[("accessToken", tok_old.as_str())]).await;
                if !(pt == "ErrorResponse" && code == 403) {
                    served += 1;
                }
                advance(2_000).await;
            }
            advance(1_000).await;
            let (pt, code, body) = grpc_call(&srv_keep, "ServiceListRequest", &[("accessToken", tok_old.as_str())]).await;
            vensure!(pt == "ErrorResponse" && code == 403, "C16.grpc_token_in_continuous_use_outlives_expiry", "a token used over gRPC every 2 s on node 1 ({} requests served) is still served {} ms after its expiry (ttl {} ms): {} {} {}", served, sim::now_us() / 1000 - t_old - ttl_ms, ttl_ms, pt, code, body.chars().take(120).collect::<String>());
            sim::count("probe.grpc_token_polled_across_expiry", 1);
        }
        let elapsed = sim::now_us() / 1000 - t_old;
        if elapsed < ttl_ms + 2_000 {
            advance(ttl_ms + 2_000 - elapsed).await;
        }
        if situation == "log_restart" {
            // no snapshot: the node restarts after the token has expired and replays the login entry from its log
            stop_node(1).await;
            let n = start_node(&root, 1, true, None, &cfg.node).await.map_err(|e| Violation::new("harness.start", e.to_string()))?;
            vensure!(wait_leader(&n, 20_000).await.is_some(), "C16.no_leader", "no leader after the restart");
            advance(13_000).await;
            sim::count("probe.restart_with_log_replay_after_expiry", 1);
        }
        let issuer = node(1).unwrap();
        let tok_new = login_api(&issuer, "admin", "admin").await.ok_or_else(|| Violation::new("harness.login", "second login refused".to_string()))?;
        let t_new = sim::now_us() / 1000;
        // the node the requests are presented on
        let target_id = if nn > 1 { script["target"].as_u64().unwrap_or(2).min(nn) } else { 1 };
        if nn > 1 && target_id != 1 {
            sim::count("probe.token_presented_on_other_node", 1);
        }
        if situation == "leader_down" && nn > 1 {
            advance(1_500).await;
            // the session must come from the local copy or be refused; nobody can be asked
            let leader = metrics(&node(target_id).unwrap()).current_leader.unwrap_or(1);
            if leader != target_id {
                kill_node(leader).await;
                sim::count("fault.kill_leader", 1);
                advance(500).await;
            }
        } else {
            advance(rng.range(0, 1500)).await;
        }
        let target = node(target_id).ok_or_else(|| Violation::new("harness.start", "target node missing".to_string()))?;
        let app = api_app!(target);
        let toks = vec![
            Tok { label: "absent", value: String::new() },
            Tok { label: "empty", value: String::new() },
            Tok { label: "garbage", value: "0123456789abcdef0123456789abcdef0123456789abcdef0123456789abcdef".to_string() },
            Tok { label: "garbage-short", value: "x".to_string() },
            Tok { label: "expired", value: tok_old.clone() },
            Tok { label: "valid-with-suffix", value: format!("{}0", tok_new) },
            Tok { label: "valid-prefix", value: tok_new[..tok_new.len() - 1].to_string() },
        ];
        // ---- route universe, rebuilt from the working tree ----
        let lits = path_literals();
        let cands = candidate_paths(&lits, &["/nacos", "/rnacos"]);
        sim::count("probe.candidate_paths", cands.len() as u64);
        let auth_hdr = vec![("accessToken".to_string(), tok_new.clone())];
        let mut registered: Vec<String> = vec![];
        for p in &cands {
            let r = call_with(&app, "GET", p, &auth_hdr, "", None).await;
            if r.status != 404 {
                registered.push(p.clone());
            }
        }
        vensure!(registered.len() >= 20, "C16.route_discovery", "only {} of {} candidate paths reach the router with a valid token on node {} (leader down: {}): the valid token is not accepted or the discovery is broken", registered.len(), cands.len(), target_id, situation == "leader_down");
        let mut pairs: Vec<(String, &'static str)> = vec![];
        for p in &registered {
            if !in_scope_api(p) {
                continue;
            }
            for m in METHODS {
                let r = call_with(&app, m, p, &auth_hdr, "", None).await;
                if r.status != 404 && r.status != 405 {
                    // the middleware's refusal is recognisable by its JSON body; handlers may answer 403 for reasons of their own
                    let mw = r.status == 403 && r.text().contains("\"error\":\"Forbidden\"");
                    if r.status == 403 && !mw {
                        sim::count("probe.handler_own_403", 1);
                    }
                    vensure!(!mw, "C16.valid_token_refused", "{} {} with a token issued by a successful login {} ms ago (ttl {} ms) is refused on node {}: {}", m, p, sim::now_us() / 1000 - t_old - ttl_ms, ttl_ms, target_id, r.text());
                    pairs.push((p.clone(), m));
                }
            }
        }
        sim::count("probe.registered_route_methods", pairs.len() as u64);
        // ---- unauthorised sweep: nothing is served, nothing changes ----
        let mut bypasses: Vec<(bool, String)> = vec![];
        // spellings that still reach a handler, established with the valid token before the data is observed
        let mut live_spellings: BTreeMap<usize, Vec<(String, u16)>> = BTreeMap::new();
        for (pi, (p, m)) in pairs.iter().enumerate() {
            if exempt_api(p) {
                continue;
            }
            for sp in spellings(p, &mut rng) {
                let rv = call_with(&app, m, &sp, &auth_hdr, "", None).await;
                if rv.status == 404 || rv.status == 405 || rv.status == 400 && rv.body.is_empty() {
                    continue;
                }
                // in scope: the decoded path is literally under /nacos/ or /rnacos/v1/ (leading duplicate slashes ignored)
                let dec = pct_decode(&sp);
                let dec = format!("/{}", dec.trim_start_matches('/'));
                if !in_scope_api(&dec) {
                    continue;
                }
                sim::count("probe.spelling_reaches_handler", 1);
                live_spellings.entry(pi).or_default().push((sp, rv.status));
            }
        }
        let before = strip_cache(observe(&target, "c16a").await.map_err(|e| Violation::new("C16.observe_failed", e.to_string()))?);
        // per run a PRNG sample of the pairs gets the full token x carrier x spelling product, all others one PRNG combination
        for (pi, (p, m)) in pairs.iter().enumerate() {
            routes_checked += 1;
            let full = (rng.below(pairs.len() as u64)) < sample;
            let exempt = exempt_api(p);
            if exempt {
                continue;
            }
            for (ti, t) in toks.iter().enumerate() {
                let cs: Vec<u64> = if t.label == "absent" { vec![99] } else if full { (0..7).collect() } else { vec![rng.below(7)] };
                for c in cs {
                    let (h, q, f, cname) = if c == 99 { (vec![], String::new(), None, "none") } else { carrier(c, &t.value) };
                    if *m == "GET" && f.is_some() {
                        continue;
                    }
                    let r = call_with(&app, m, p, &h, &q, f).await;
                    if exempt {
                        continue;
                    }
                    vensure!(r.status == 403, "C16.served_without_token", "{} {} with token state '{}' (carrier: {}) answers {} instead of 403 on node {} [{}]: {}", m, p, t.label, cname, r.status, target_id, situation, r.text().chars().take(160).collect::<String>());
                    let _ = ti;
                }
            }
            if exempt {
                continue;
            }
            // spellings that reach a handler with a valid token must be refused without one
            for (sp, st_valid) in live_spellings.get(&pi).cloned().unwrap_or_default() {
                let r0 = call_with(&app, m, &sp, &[], "", None).await;
                if r0.status != 403 {
                    let static_page = r0.text().contains("<!DOCTYPE html>");
                    bypasses.push((static_page, format!("{} {} (spelling of {}; with a valid token: {}) answers {} without any token: {}", m, sp, p, st_valid, r0.status, r0.text().chars().take(80).collect::<String>().replace('\n', " "))));
                }
            }
        }
        if !bypasses.is_empty() {
            bypasses.sort();
            vfail!("C16.spelling_bypass", "{} spellings that reach a handler are served without any token on node {}, e.g. {}", bypasses.len(), target_id, bypasses.iter().take(3).map(|b| b.1.clone()).collect::<Vec<_>>().join(" | "));
        }
        let after = strip_cache(observe(&target, "c16b").await.map_err(|e| Violation::new("C16.observe_failed", e.to_string()))?);
        vensure!(before == after, "C16.data_touched", "the unauthorised sweep changed the node's data: {}", obs_diff(&before, &after));
        // ---- gRPC ----
        // the sweep itself takes simulated time on a cluster (every unknown token is looked up on the leader):
        // the positive control needs a token that is still alive
        let mut tok_new = tok_new;
        let mut valid_control = true;
        if sim::now_us() / 1000 - t_new + 3_000 > ttl_ms {
            match if situation == "leader_down" { None } else { login_api(&node(1).unwrap(), "admin", "admin").await } {
                Some(t) => tok_new = t,
                None => {
                    valid_control = false;
                    sim::count("probe.grpc_valid_control_skipped", 1);
                }
            }
        }
        let srv = grpc_server(&target);
        let types = grpc_request_types();
        sim::count("probe.grpc_request_types", types.len() as u64);
        let cluster_types = ["RaftAppendRequest", "RaftSnapshotRequest", "RaftVoteRequest", "RaftRouteRequest", "NamingRouteRequest"];
        let open_types = ["ServerCheckRequest", "HealthCheckRequest"];
        for t in types.iter().map(|s| s.as_str()).chain(["NoSuchRequest"]) {
            let is_cluster = cluster_types.contains(&t);
            if is_cluster {
                // cluster-internal requests: refused without the cluster token
                let real = cfg.node.cluster_token.clone();
                let variants: Vec<(&str, Option<String>)> = vec![
                    ("absent", None),
                    ("wrong", Some("nope".to_string())),
                    ("empty", Some(String::new())),
                    ("first character only", Some(real.chars().take(1).collect())),
                    ("all but the last character", Some(real.chars().take(real.chars().count().saturating_sub(1)).collect())),
                    ("token plus a suffix", Some(format!("{}x", real))),
                    ("other letter case", Some(real.to_uppercase())),
                    ("surrounded by blanks", Some(format!(" {} ", real))),
                ];
                for (label, val) in &variants {
                    if val.as_deref() == Some(real.as_str()) {
                        continue;
                    }
                    // under the header name the sender uses (ClusterToken) and under a look-alike
                    for name in ["ClusterToken", "cluster_token"] {
                        let hdr: Vec<(&str, &str)> = match val {
                            Some(v) => vec![(name, v.as_str())],
                            None => vec![],
                        };
                        let (pt, code, body) = grpc_call(&srv, t, &hdr).await;
                        vensure!(pt == "ErrorResponse" && body.contains("cluster token is invalid"), "C16.cluster_request_without_token", "gRPC cluster request {} with cluster token '{}' (header {}) is not refused: {} {} {}", t, label, name, pt, code, body.chars().take(120).collect::<String>());
                    }
                }
                // positive control: the right token is not refused for its token
                let (pt, _code, body) = grpc_call(&srv, t, &[("ClusterToken", real.as_str())]).await;
                vensure!(!(pt == "ErrorResponse" && body.contains("cluster token is invalid")), "C16.valid_cluster_token_refused", "gRPC cluster request {} with the configured cluster token is refused: {}", t, body.chars().take(120).collect::<String>());
                sim::count("probe.cluster_token_variants_checked", 1);
                continue;
            }
            if open_types.contains(&t) {
                continue;
            }
            // with a valid token the request is not refused for authentication
            let (pt, code, body) = grpc_call(&srv, t, &[("accessToken", tok_new.as_str())]).await;
            let known = !(pt == "ErrorResponse" && code == 302);
            if known && valid_control {
                vensure!(!(pt == "ErrorResponse" && code == 403), "C16.valid_token_refused", "gRPC {} with a valid token is refused: {}", t, body.chars().take(120).collect::<String>());
                sim::count("probe.grpc_type_checked", 1);
            }
            for tk in &toks {
                let hdrs: Vec<Vec<(&str, &str)>> = if tk.label == "absent" { vec![vec![], vec![("ClusterToken", cfg.node.cluster_token.as_str())]] } else { vec![vec![("accessToken", tk.value.as_str())], vec![("Authorization", tk.value.as_str())]] };
                for h in hdrs {
                    let (pt, code, body) = grpc_call(&srv, t, &h).await;
                    vensure!(pt == "ErrorResponse" && code == 403, "C16.grpc_served_without_token", "gRPC {} with token state '{}' (headers {:?}) is not refused with 403: {} {} {}", t, tk.label, h.iter().map(|x| x.0).collect::<Vec<_>>(), pt, code, body.chars().take(120).collect::<String>());
                }
            }
        }
        let after2 = strip_cache(observe(&target, "c16c").await.map_err(|e| Violation::new("C16.observe_failed", e.to_string()))?);
        vensure!(after == after2, "C16.data_touched", "the unauthorised gRPC sweep changed the node's data: {}", obs_diff(&after, &after2));
        digest = digest_str(&format!("{:?}", pairs));
        Ok(())
    }
    .await;
    let info = RunInfo { digest, nontrivial: routes_checked >= 20, info: json!({"route_methods": routes_checked, "situation": situation}), findings: vec![] };
    for n in live_nodes() {
        kill_node(n.id).await;
    }
    ExecResult { violation: r.err(), info }
}

pub struct C16;
impl Check for C16 {
    fn id(&self) -> &'static str {
        "C16"
    }
    fn generate(&self, seed: u64, _tier: Tier) -> Value {
        let mut rng = Rng::derive(seed, "C16.gen", 0);
        let mut cfg = NCfg::default();
        let situation = *rng.pick(&["single", "log_restart", "snapshot_restart", "snapshot_restart", "other_node", "leader_down"]);
        cfg.nodes = if situation == "other_node" || situation == "leader_down" { 2 } else { 1 };
        cfg.node.auth = true;
        cfg.node.cluster_token = "ct-9f2c".to_string();
        cfg.node.openapi_login_timeout = rng.range(20, 90) as i32;
        cfg.node.snapshot_log_size = if situation == "snapshot_restart" { rng.range(20, 40) } else { 10_000 };
        json!({"check": "C16", "seed": seed, "cfg": cfg, "situation": situation, "target": rng.range(1, 2), "sample": 100000, "steps": []})
    }
    fn execute(&self, script: Value) -> LocalFut<ExecResult> {
        Box::pin(exec_c16(script))
    }
}

// ---------------------------------------------------------------------------
// C17: console login and roles
// ---------------------------------------------------------------------------
fn b64(data: &[u8]) -> String {
    const T: &[u8; 64] = b"ABCDEFGHIJKLMNOPQRSTUVWXYZabcdefghijklmnopqrstuvwxyz0123456789+/";
    let mut out = String::new();
    for ch in data.chunks(3) {
        let b = [ch[0], *ch.get(1).unwrap_or(&0), *ch.get(2).unwrap_or(&0)];
        let n = ((b[0] as u32) << 16) | ((b[1] as u32) << 8) | b[2] as u32;
        out.push(T[(n >> 18) as usize & 63] as char);
        out.push(T[(n >> 12) as usize & 63] as char);
        out.push(if ch.len() > 1 { T[(n >> 6) as usize & 63] as char } else { '=' });
        out.push(if ch.len() > 2 { T[n as usize & 63] as char } else { '=' });
    }
    out
}

async fn console_login(n: &NodeH, user: &str, pass: &str) -> Option<String> {
    let app = console_app!(n);
    let body = format!("username={}&password={}", user, urlencode(&b64(pass.as_bytes())));
    let r = call(&app, "POST", "/rnacos/api/console/v2/login/login", &[], Some(("application/x-www-form-urlencoded", body.into_bytes()))).await;
    if std::env::var("RNSIM_NM_DEBUG").is_ok() {
        eprintln!("dbg login {} -> {} {:?} {}", user, r.status, r.headers, r.text());
    }
    for (k, v) in &r.headers {
        if k.eq_ignore_ascii_case("set-cookie") && v.starts_with("token=") {
            return Some(v["token=".len()..].split(';').next().unwrap_or("").to_string());
        }
    }
    None
}

/// what the middleware did with a request
#[derive(Clone, Copy, PartialEq, Debug)]
enum Gate {
    NoLogin,
    NoPermission,
    Through(u16),
}

fn gate_of(r: &HttpResp) -> Gate {
    let has = |name: &str| r.headers.iter().any(|(k, _)| k.eq_ignore_ascii_case(name));
    let loc = r.headers.iter().find(|(k, _)| k.eq_ignore_ascii_case("location")).map(|(_, v)| v.clone()).unwrap_or_default();
    if has("No-Login") || (r.status == 302 && loc.contains("/p/login")) {
        Gate::NoLogin
    } else if has("No-Permission") || (r.status == 302 && loc.contains("/nopermission")) {
        Gate::NoPermission
    } else {
        Gate::Through(r.status)
    }
}

fn console_login_endpoint(path: &str) -> bool {
    ["/rnacos/api/console/login/login", "/rnacos/api/console/login/captcha", "/rnacos/api/console/v2/login/login", "/rnacos/api/console/v2/login/captcha", "/rnacos/api/console/v2/login/config", "/rnacos/api/console/v2/login/oauth2/login"].contains(&path)
}

fn is_api(path: &str) -> bool {
    path.starts_with("/rnacos/api/")
}

/// the statement's data areas, recognised from the path: (area, self-service exception)
fn data_area(path: &str) -> Option<&'static str> {
    let tail = path.trim_start_matches("/rnacos/api/console/v2/").trim_start_matches("/rnacos/api/console/");
    if tail == path {
        return None;
    }
    let seg = tail.split('/').next().unwrap_or("");
    let self_service = ["user/info", "user/web_resources", "user/reset_password"].contains(&tail);
    match seg {
        "user" if !self_service => Some("users"),
        "config" | "configs" | "cs" => Some("configuration"),
        "namespaces" | "namespace" => Some("namespaces"),
        "naming" | "ns" | "service" | "instance" | "instances" => Some("services"),
        "mcp" => Some("MCP"),
        "transfer" => Some("transfer"),
        _ => None,
    }
}

pub async fn exec_c17(script: Value) -> ExecResult {
    let seed = script["seed"].as_u64().unwrap_or(1);
    let cfg: NCfg = serde_json::from_value(script["cfg"].clone()).unwrap_or_default();
    let situation = script["situation"].as_str().unwrap_or("single").to_string();
    tokio::fs::set_cfg(disk_cfg(&cfg));
    tokio::fs::with_disk(|d| {
        d.journal_on = false;
        d.log_ops = false;
    });
    net_reset(seed, cfg.net.clone());
    let root = run_root(seed);
    let ttl_ms = cfg.node.console_login_timeout as u64 * 1000;
    let mut digest = 0u64;
    let mut routes_checked = 0u64;
    let r: VResult<()> = async {
        let mut rng = Rng::derive(seed, "C17.exec", 0);
        let nn = cfg.nodes.max(1);
        if nn > 1 {
            cluster_up(&root, &cfg, "C17").await?;
        } else {
            let n = start_node(&root, 1, true, None, &cfg.node).await.map_err(|e| Violation::new("harness.start", e.to_string()))?;
            vensure!(wait_leader(&n, 20_000).await.is_some(), "C17.no_leader", "single node did not become leader");
            advance(16_000).await;
        }
        let n1 = node(1).unwrap();
        // users of every role set, through the real user table
        let role_sets: Vec<(&str, Vec<&str>)> = vec![("uvis", vec!["2"]), ("udev", vec!["1"]), ("uman", vec!["0"]), ("uvisdev", vec!["2", "1"]), ("uunknown", vec!["9"]), ("uvisx", vec!["2", "x", ""]), ("unone", vec![]), ("uodd", vec!["VISITOR", "00", "1 "])];
        for (name, roles) in &role_sets {
            let user = rnacos::user::model::UserDto { username: Arc::new(name.to_string()), nickname: Some(name.to_string()), password: Some(format!("pw-{}-123", name)), enable: Some(true), roles: Some(roles.iter().map(|r| Arc::new(r.to_string())).collect()), ..Default::default() };
            match within(10_000, n1.app.user_manager.send(rnacos::user::UserManagerReq::AddUser { user, namespace_privilege_param: None })).await {
                Some(Ok(Ok(_))) => {}
                other => vfail!("harness.user", "cannot create user {}: {:?}", name, other.map(|r| r.map(|x| x.map(|_| ()).map_err(|e| e.to_string())).map_err(|e| e.to_string()))),
            }
        }
        advance(500).await;
        // an early session that will have expired when the sweep runs
        let tok_expired = console_login(&n1, "uman", "pw-uman-123").await.ok_or_else(|| Violation::new("harness.login", "console login of uman refused".to_string()))?;
        let t_old = sim::now_us() / 1000;
        if situation == "snapshot_restart" {
            for k in 0..(cfg.node.snapshot_log_size + 8) {
                let req = rnacos::raft::cluster::model::SetConfigReq::new(crate::wl::cfg_key(0, 0, (k % 4) as u8), Arc::new(format!("v{}", k)));
                let _ = within(10_000, n1.app.config_route.set_config(req)).await;
            }
            advance(2_000).await;
            stop_node(1).await;
            let n = start_node(&root, 1, true, None, &cfg.node).await.map_err(|e| Violation::new("harness.start", e.to_string()))?;
            vensure!(wait_leader(&n, 20_000).await.is_some(), "C17.no_leader", "no leader after the restart");
            advance(13_000).await;
            sim::count("probe.restart_from_snapshot", 1);
        }
        let elapsed = sim::now_us() / 1000 - t_old;
        if elapsed < ttl_ms + 2_000 {
            advance(ttl_ms + 2_000 - elapsed).await;
        }
        if situation == "log_restart" {
            stop_node(1).await;
            let n = start_node(&root, 1, true, None, &cfg.node).await.map_err(|e| Violation::new("harness.start", e.to_string()))?;
            vensure!(wait_leader(&n, 20_000).await.is_some(), "C17.no_leader", "no leader after the restart");
            advance(13_000).await;
            sim::count("probe.restart_with_log_replay_after_expiry", 1);
        }
        let n1 = node(1).unwrap();
        let mut sessions: BTreeMap<&str, String> = BTreeMap::new();
        for (name, _) in &role_sets {
            let t = console_login(&n1, name, &format!("pw-{}-123", name)).await.ok_or_else(|| Violation::new("harness.login", format!("console login of {} refused", name)))?;
            sessions.insert(name, t);
        }
        let target_id = if nn > 1 { script["target"].as_u64().unwrap_or(2).min(nn) } else { 1 };
        if target_id != 1 {
            sim::count("probe.session_presented_on_other_node", 1);
        }
        advance(rng.range(0, 1500)).await;
        let target = node(target_id).unwrap();
        let app = console_app!(target);
        // routing only (no middleware): which (path, method) pairs exist
        let plain = {
            let app_data = target.app.clone();
            actix_web::test::init_service(App::new().app_data(Data::new(app_data.clone())).app_data(Data::new(app_data.config_addr.clone())).app_data(Data::new(app_data.naming_addr.clone())).app_data(Data::new(app_data.bi_stream_manage.clone())).configure(console_config)).await
        };
        let lits = path_literals();
        let cands = candidate_paths(&lits, &["/rnacos"]);
        sim::count("probe.candidate_paths", cands.len() as u64);
        let mut pairs: Vec<(String, &'static str)> = vec![];
        for p in &cands {
            if !is_api(p) {
                continue;
            }
            let r = call_with(&plain, "GET", p, &[], "", None).await;
            if r.status == 404 {
                continue;
            }
            for m in METHODS {
                let r = if m == "GET" { r.status } else { call_with(&plain, m, p, &[], "", None).await.status };
                if r != 404 && r != 405 {
                    pairs.push((p.clone(), m));
                }
            }
        }
        sim::count("probe.registered_route_methods", pairs.len() as u64);
        vensure!(pairs.len() >= 40, "C17.route_discovery", "only {} console API route x method pairs found", pairs.len());
        let hdr = |t: &str| vec![("Token".to_string(), t.to_string())];
        let cookie = |t: &str| vec![("Cookie".to_string(), format!("token={}", t))];
        let mut reach: BTreeMap<(usize, &str), bool> = BTreeMap::new();
        for (pi, (p, m)) in pairs.iter().enumerate() {
            routes_checked += 1;
            // (a) no valid session: nothing but the login endpoints
            if !console_login_endpoint(p) {
                for (label, h) in [("absent", vec![]), ("empty", hdr("")), ("garbage", hdr("0123456789abcdef0123456789abcdef0123456789abcdef0123456789abcdef")), ("garbage cookie", cookie("zz")), ("expired", hdr(&tok_expired)), ("expired cookie", cookie(&tok_expired)), ("valid+1", hdr(&format!("{}0", sessions["uman"])))] {
                    let g = gate_of(&call_with(&app, m, p, &h, "", None).await);
                    vensure!(g == Gate::NoLogin, "C17.reached_without_session", "{} {} with session state '{}' is not refused as not-logged-in on node {} [{}]: {:?}", m, p, label, target_id, situation, g);
                }
            }
            // (b) with a session: through iff granted
            for (name, _) in &role_sets {
                let via_cookie = rng.chance(0.5);
                let h = if via_cookie { cookie(&sessions[name]) } else { hdr(&sessions[name]) };
                let resp = call_with(&app, m, p, &h, "", None).await;
                let g = gate_of(&resp);
                if std::env::var("RNSIM_NM_DEBUG").is_ok() {
                    let r2 = call_with(&app, m, p, &cookie(&sessions[name]), "", None).await;
                    let r3 = call_with(&app, m, p, &hdr(&sessions[name]), "", None).await;
                    eprintln!("dbg {} {} {} via_cookie={} -> {:?} | cookie {:?} | header {:?} | tok {}", m, p, name, via_cookie, g, gate_of(&r2), gate_of(&r3), &sessions[name][..8]);
                }
                vensure!(g != Gate::NoLogin || console_login_endpoint(p), "C17.valid_session_refused", "{} {} with the live session of {} ({}) is answered not-logged-in on node {} [{}]: {} {:?} {}", m, p, name, if via_cookie { "cookie" } else { "Token header" }, target_id, situation, resp.status, resp.headers, resp.text().chars().take(120).collect::<String>());
                reach.insert((pi, name), matches!(g, Gate::Through(_)));
                if p.ends_with("/logout") && matches!(g, Gate::Through(_)) {
                    // the handler did its work: the session must be gone, whichever way the token was presented to the logout
                    // call and whichever way it is presented afterwards
                    advance(300).await;
                    let old = sessions[name].clone();
                    if let Some((pp, pm)) = pairs.iter().find(|(pp, _)| !console_login_endpoint(pp) && !pp.ends_with("/logout")) {
                        for (carrier, hh) in [("Token header", hdr(&old)), ("cookie", cookie(&old))] {
                            let g2 = gate_of(&call_with(&app, pm, pp, &hh, "", None).await);
                            vensure!(g2 == Gate::NoLogin, "C17.session_alive_after_logout", "{} {} answered the logout of {} (token sent as {}) but the same token, sent as {}, still opens {} {} afterwards on node {} [{}]: {:?}", m, p, name, if via_cookie { "cookie" } else { "Token header" }, carrier, pm, pp, target_id, situation, g2);
                        }
                        sim::count("probe.logout_then_token_refused", 1);
                    }
                    let t = console_login(&n1, name, &format!("pw-{}-123", name)).await.ok_or_else(|| Violation::new("harness.login", format!("console re-login of {} refused", name)))?;
                    sessions.insert(name, t);
                    advance(50).await;
                }
            }
        }
        // relations between the roles, per registered pair
        let mut granted_to_nobody = 0;
        for (pi, (p, m)) in pairs.iter().enumerate() {
            if console_login_endpoint(p) {
                continue;
            }
            let rc = |u: &str| reach[&(pi, u)];
            vensure!(!rc("uvis") || rc("udev"), "C17.role_order", "{} {}: a visitor gets through but a developer does not", m, p);
            vensure!(!rc("udev") || rc("uman"), "C17.role_order", "{} {}: a developer gets through but a manager does not", m, p);
            vensure!(rc("uvisdev") == (rc("uvis") || rc("udev")), "C17.role_union", "{} {}: a user with roles visitor+developer gets {} but visitor {} / developer {}", m, p, rc("uvisdev"), rc("uvis"), rc("udev"));
            vensure!(rc("uvisx") == rc("uvis"), "C17.unknown_role_adds_rights", "{} {}: roles [2, x, ''] get {} but role [2] gets {}", m, p, rc("uvisx"), rc("uvis"));
            for u in ["uunknown", "unone", "uodd"] {
                vensure!(!rc(u), "C17.unknown_role_reaches", "{} {}: the user {} without any known role gets through", m, p, u);
            }
            if !rc("uman") {
                granted_to_nobody += 1;
            }
            if let Some(area) = data_area(p) {
                if *m != "GET" {
                    vensure!(!rc("uvis"), "C17.visitor_can_change", "a visitor session gets through to {} {} ({} data, a changing method)", m, p, area);
                }
                if area == "users" || area == "transfer" {
                    vensure!(!rc("udev"), "C17.developer_exceeds", "a developer session gets through to {} {} ({})", m, p, if area == "users" { "user management" } else { "full-data transfer" });
                }
            }
        }
        sim::count("probe.pairs_granted_to_nobody", granted_to_nobody);
        sim::count("probe.pairs_visitor_through", pairs.iter().enumerate().filter(|(pi, _)| reach[&(*pi, "uvis")]).count() as u64);
        sim::count("probe.pairs_developer_through", pairs.iter().enumerate().filter(|(pi, _)| reach[&(*pi, "udev")]).count() as u64);
        sim::count("probe.pairs_manager_through", pairs.iter().enumerate().filter(|(pi, _)| reach[&(*pi, "uman")]).count() as u64);
        // spellings of granted and refused routes must not open anything for a visitor or without a session
        let mut rng2 = Rng::derive(seed, "C17.spell", 0);
        for (pi, (p, m)) in pairs.iter().enumerate() {
            if console_login_endpoint(p) {
                continue;
            }
            for sp in spellings(p, &mut rng2) {
                let exists = call_with(&plain, m, &sp, &[], "", None).await.status;
                if exists == 404 || exists == 405 {
                    continue;
                }
                sim::count("probe.spelling_reaches_handler", 1);
                let g0 = gate_of(&call_with(&app, m, &sp, &[], "", None).await);
                vensure!(g0 == Gate::NoLogin, "C17.spelling_bypass", "{} {} (a spelling of {} that reaches a handler) is not refused without a session: {:?}", m, sp, p, g0);
                if !reach[&(pi, "uvis")] {
                    let gv = gate_of(&call_with(&app, m, &sp, &hdr(&sessions["uvis"]), "", None).await);
                    vensure!(!matches!(gv, Gate::Through(_)), "C17.spelling_bypass", "{} {} (a spelling of {}, which a visitor may not call) lets a visitor session through: {:?}", m, sp, p, gv);
                }
            }
        }
        digest = digest_str(&format!("{:?}", reach));
        Ok(())
    }
    .await;
    let info = RunInfo { digest, nontrivial: routes_checked >= 40, info: json!({"route_methods": routes_checked, "situation": situation}), findings: vec![] };
    for n in live_nodes() {
        kill_node(n.id).await;
    }
    ExecResult { violation: r.err(), info }
}

pub struct C17;
impl Check for C17 {
    fn id(&self) -> &'static str {
        "C17"
    }
    fn generate(&self, seed: u64, _tier: Tier) -> Value {
        let mut rng = Rng::derive(seed, "C17.gen", 0);
        let mut cfg = NCfg::default();
        let situation = *rng.pick(&["single", "log_restart", "snapshot_restart", "other_node"]);
        cfg.nodes = if situation == "other_node" { 2 } else { 1 };
        cfg.node.console_login_timeout = rng.range(20, 90) as i32;
        cfg.node.snapshot_log_size = if situation == "snapshot_restart" { rng.range(20, 40) } else { 10_000 };
        json!({"check": "C17", "seed": seed, "cfg": cfg, "situation": situation, "target": rng.range(1, 2), "steps": []})
    }
    fn execute(&self, script: Value) -> LocalFut<ExecResult> {
        Box::pin(exec_c17(script))
    }
}
