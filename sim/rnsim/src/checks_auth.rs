//! C16 (OpenAPI authentication on the SDK port and the gRPC port) and C17 (console login and roles).
//! The route x method x carrier products are finite sweeps; they are run inside simulated situations:
//! token expiry on the simulated clock, a token presented on another node, a restart from a snapshot
//! taken while the token was alive, the leader down.
use crate::checks_n::{cluster_up, disk_cfg, observe, obs_diff, NCfg};
use crate::core::*;
use crate::http::*;
use crate::rig_n::*;
use crate::{api_app, console_app, vensure, vfail};
use actix_web::web::Data;
use actix_web::App;
use async_raft_ext::RaftStorage;
use rnacos::console::middle::login_middle::CheckLogin;
use rnacos::grpc::handler::InvokerHandler;
use rnacos::grpc::server::RequestServerImpl;
use rnacos::grpc::PayloadUtils;
use rnacos::openapi::middle::auth_middle::ApiCheckAuth;
use rnacos::web_config::{app_config, console_config};
use serde_json::{json, Value};
use std::collections::{BTreeMap, BTreeSet};
use std::ops::Deref;
use std::sync::Arc;
use tokio::sim::{self, Rng};

pub const METHODS: [&str; 5] = ["GET", "POST", "PUT", "DELETE", "PATCH"];

/// Every string literal in /repo/src that looks like a path ("/..."), read from the working tree.
pub fn path_literals() -> Vec<String> {
    fn walk(dir: &std::path::Path, out: &mut Vec<std::path::PathBuf>) {
        if let Ok(rd) = std::fs::read_dir(dir) {
            let mut es: Vec<_> = rd.filter_map(|e| e.ok()).map(|e| e.path()).collect();
            es.sort();
            for p in es {
                if p.is_dir() {
                    walk(&p, out);
                } else if p.extension().map(|e| e == "rs").unwrap_or(false) {
                    out.push(p);
                }
            }
        }
    }
    let mut files = vec![];
    walk(std::path::Path::new("/repo/src"), &mut files);
    let mut set = BTreeSet::new();
    for f in files {
        if let Ok(txt) = std::fs::read_to_string(&f) {
            let b = txt.as_bytes();
            let mut i = 0;
            while i + 1 < b.len() {
                if b[i] == b'"' && b[i + 1] == b'/' {
                    let mut j = i + 1;
                    while j < b.len() && b[j] != b'"' && b[j] != b'\n' {
                        j += 1;
                    }
                    if j < b.len() && b[j] == b'"' {
                        let lit = &txt[i + 1..j];
                        if lit.len() < 120 && lit.bytes().all(|c| c.is_ascii_alphanumeric() || b"/_-.{}:*".contains(&c)) {
                            set.insert(lit.to_string());
                        }
                    }
                    i = j + 1;
                } else {
                    i += 1;
                }
            }
        }
    }
    set.into_iter().collect()
}

/// Replace actix path parameters by a concrete segment.
fn concretise(p: &str) -> String {
    let mut out = String::new();
    let mut depth = 0;
    for c in p.chars() {
        match c {
            '{' => {
                if depth == 0 {
                    out.push_str("x1");
                }
                depth += 1;
            }
            '}' => depth -= 1,
            _ if depth == 0 => out.push(c),
            _ => {}
        }
    }
    out
}

/// Candidate paths: every literal, every prefix-literal + literal, and "/nacos" + "/v*" literal + literal.
pub fn candidate_paths(lits: &[String], roots: &[&str]) -> Vec<String> {
    let mut set = BTreeSet::new();
    let prefixes: Vec<&String> = lits.iter().filter(|l| roots.iter().any(|r| l.starts_with(r))).collect();
    let versions: Vec<&String> = lits.iter().filter(|l| l.starts_with("/v1") || l.starts_with("/v2") || l.starts_with("/v3")).collect();
    for l in lits {
        set.insert(concretise(l));
        for p in &prefixes {
            set.insert(concretise(&format!("{}{}", p, l)));
        }
        for v in &versions {
            set.insert(concretise(&format!("/nacos{}{}", v, l)));
        }
    }
    set.into_iter().filter(|p| p.starts_with('/') && !p.contains("//")).collect()
}

async fn login_api(n: &NodeH, user: &str, pass: &str) -> Option<String> {
    let app = api_app!(n);
    let body = format!("username={}&password={}", user, pass);
    let r = call(&app, "POST", "/nacos/v1/auth/login", &[], Some(("application/x-www-form-urlencoded", body.into_bytes()))).await;
    if r.status != 200 {
        return None;
    }
    serde_json::from_slice::<Value>(&r.body).ok().and_then(|v| v["accessToken"].as_str().map(|s| s.to_string()))
}

fn exempt_api(path: &str) -> bool {
    ["/nacos/v1/auth/login", "/nacos/v1/auth/users/login", "/nacos/v3/auth/user/login", "/rnacos/v1/auth/user/login", "/nacos/metrics", "/nacos/v1/raft/close-write"].contains(&path)
}

/// Is the path (as the router decodes it) inside the statement's scope?
fn in_scope_api(decoded: &str) -> bool {
    let l = decoded.to_ascii_lowercase();
    l.starts_with("/nacos/") || l.starts_with("/rnacos/v1/")
}

fn pct_decode(p: &str) -> String {
    let b = p.as_bytes();
    let mut out = vec![];
    let mut i = 0;
    while i < b.len() {
        if b[i] == b'%' && i + 2 < b.len() + 0 && i + 2 <= b.len() - 1 + 0 {
            if let Ok(v) = u8::from_str_radix(&p[i + 1..i + 3], 16) {
                out.push(v);
                i += 3;
                continue;
            }
        }
        out.push(b[i]);
        i += 1;
    }
    String::from_utf8_lossy(&out).to_string()
}

/// spellings of a path that may still reach the same handler
fn spellings(path: &str, rng: &mut Rng) -> Vec<String> {
    let mut v = vec![];
    v.push(format!("{}/", path));
    v.push(format!("/{}", path));
    if let Some(pos) = path[1..].find('/') {
        v.push(format!("{}/{}", &path[..pos + 1], &path[pos + 1..]));
    }
    // upper-case prefix, upper-case everything
    v.push(path.to_ascii_uppercase());
    if path.len() > 7 {
        v.push(format!("{}{}", path[..7].to_ascii_uppercase(), &path[7..]));
    }
    // percent-encode one letter (unreserved characters are decoded by the router)
    let letters: Vec<usize> = path.char_indices().filter(|(_, c)| c.is_ascii_alphabetic()).map(|(i, _)| i).collect();
    if !letters.is_empty() {
        for _ in 0..2 {
            let i = letters[rng.below(letters.len() as u64) as usize];
            v.push(format!("{}%{:02x}{}", &path[..i], path.as_bytes()[i], &path[i + 1..]));
        }
        let i = letters[0];
        v.push(format!("{}%{:02X}{}", &path[..i], path.as_bytes()[i], &path[i + 1..]));
    }
    // encoded slash, matrix parameter, dot segment
    if let Some(pos) = path[1..].find('/') {
        v.push(format!("{}%2F{}", &path[..pos + 1], &path[pos + 2..]));
        v.push(format!("{}/.{}", &path[..pos + 1], &path[pos + 1..]));
    }
    v.push(format!("{};x=1", path));
    v
}

#[derive(Clone, Debug)]
struct Tok {
    label: &'static str,
    value: String,
}

/// (headers, query suffix, form body) for a token value through carrier `c`
fn carrier(c: u64, tv: &str) -> (Vec<(String, String)>, String, Option<String>, &'static str) {
    match c % 7 {
        0 => (vec![("Authorization".into(), tv.into())], String::new(), None, "Authorization"),
        1 => (vec![("Authorization".into(), format!("Bearer {}", tv))], String::new(), None, "Authorization: Bearer"),
        2 => (vec![("authorization".into(), format!("bEaReR\t{}", tv))], String::new(), None, "authorization: bEaReR<tab>"),
        3 => (vec![("accessToken".into(), tv.into())], String::new(), None, "accessToken header"),
        4 => (vec![], format!("accessToken={}", urlencode(tv)), None, "accessToken query"),
        5 => (vec![], String::new(), Some(format!("accessToken={}", urlencode(tv))), "accessToken form body"),
        _ => (vec![("AccessToken".into(), tv.into()), ("Authorization".into(), String::new())], String::new(), None, "empty Authorization + AccessToken header"),
    }
}

async fn call_with(app: &impl actix_web::dev::Service<actix_http::Request, Response = actix_web::dev::ServiceResponse<impl actix_web::body::MessageBody>, Error = actix_web::Error>, method: &str, path: &str, hdrs: &[(String, String)], query: &str, form: Option<String>) -> HttpResp {
    let uri = if query.is_empty() { path.to_string() } else { format!("{}?{}", path, query) };
    let h: Vec<(&str, &str)> = hdrs.iter().map(|(k, v)| (k.as_str(), v.as_str())).collect();
    let body = if method != "GET" { form.map(|f| ("application/x-www-form-urlencoded", f.into_bytes())) } else { None };
    call(app, method, &uri, &h, body).await
}

/// sessions and login limiters live in the replicated cache table and expire on their own while time passes
fn strip_cache(mut o: crate::checks_n::Obs) -> crate::checks_n::Obs {
    o.records.retain(|r| !r.0.contains("CACHE"));
    o
}

fn grpc_server(n: &NodeH) -> RequestServerImpl {
    let mut invoker = InvokerHandler::new(n.app.clone());
    invoker.add_config_handler(&n.app);
    invoker.add_naming_handler(&n.app);
    invoker.add_raft_handler(&n.app);
    RequestServerImpl::new(n.app.clone(), invoker)
}

/// request type names that appear in the gRPC handler sources
pub fn grpc_request_types() -> Vec<String> {
    let mut set = BTreeSet::new();
    for dir in ["/repo/src/grpc/handler", "/repo/src/grpc"] {
        if let Ok(rd) = std::fs::read_dir(dir) {
            let mut es: Vec<_> = rd.filter_map(|e| e.ok()).map(|e| e.path()).collect();
            es.sort();
            for p in es {
                if let Ok(txt) = std::fs::read_to_string(&p) {
                    for part in txt.split('"') {
                        if part.ends_with("Request") && part.len() > 8 && part.chars().all(|c| c.is_ascii_alphanumeric()) {
                            set.insert(part.to_string());
                        }
                    }
                }
            }
        }
    }
    set.into_iter().collect()
}

async fn grpc_call(srv: &RequestServerImpl, ptype: &str, headers: &[(&str, &str)]) -> (String, i64, String) {
    let mut h = std::collections::HashMap::new();
    for (k, v) in headers {
        h.insert(k.to_string(), v.to_string());
    }
    let payload = PayloadUtils::build_full_payload(ptype, "{}".to_string(), "10.2.0.9", h);
    let meta = rnacos::grpc::RequestMeta { connection_id: Arc::new("1_10.2.0.9:40000".to_string()), client_ip: "10.2.0.9".to_string(), ..Default::default() };
    // hook H8: the real fill_token_session + InvokerHandler::handle (connection bookkeeping of request() left out)
    match srv.verif_dispatch(payload, meta).await {
        Ok(res) => {
            let p = res.payload;
            let t = PayloadUtils::get_payload_type(&p).map(|s| s.to_string()).unwrap_or_default();
            let body = p.body.map(|b| String::from_utf8_lossy(&b.value).to_string()).unwrap_or_default();
            let code = serde_json::from_str::<Value>(&body).ok().map(|v| v["errorCode"].as_i64().unwrap_or(0)).unwrap_or(0);
            (t, code, body)
        }
        Err(e) => ("HandlerError".to_string(), -1, e.to_string()),
    }
}

pub async fn exec_c16(script: Value) -> ExecResult {
    let id = "C16";
    let seed = script["seed"].as_u64().unwrap_or(1);
    let cfg: NCfg = serde_json::from_value(script["cfg"].clone()).unwrap_or_default();
    let situation = script["situation"].as_str().unwrap_or("single").to_string();
    let sample = script["sample"].as_u64().unwrap_or(100);
    tokio::fs::set_cfg(disk_cfg(&cfg));
    tokio::fs::with_disk(|d| {
        d.journal_on = false;
        d.log_ops = false;
    });
    net_reset(seed, cfg.net.clone());
    let root = run_root(seed);
    let ttl_ms = cfg.node.openapi_login_timeout as u64 * 1000;
    let mut digest = 0u64;
    let mut routes_checked = 0u64;
    let r: VResult<()> = async {
        let mut rng = Rng::derive(seed, "C16.exec", 0);
        // ---- the situation ----
        let nn = cfg.nodes.max(1);
        if nn > 1 {
            cluster_up(&root, &cfg, id).await?;
        } else {
            let n = start_node(&root, 1, true, None, &cfg.node).await.map_err(|e| Violation::new("harness.start", e.to_string()))?;
            vensure!(wait_leader(&n, 20_000).await.is_some(), "C16.no_leader", "single node did not become leader");
            advance(16_000).await;
        }
        let issuer = node(1).unwrap();
        let tok_old = login_api(&issuer, "admin", "admin").await.ok_or_else(|| Violation::new("harness.login", "login admin/admin refused".to_string()))?;
        let t_old = sim::now_us() / 1000;
        if situation == "snapshot_restart" {
            // a snapshot is taken while the token is alive; the node restarts from it; the token must still expire
            for k in 0..(cfg.node.snapshot_log_size + 8) {
                let req = rnacos::raft::cluster::model::SetConfigReq::new(crate::wl::cfg_key(0, 0, (k % 4) as u8), Arc::new(format!("v{}", k)));
                let _ = within(10_000, issuer.app.config_route.set_config(req)).await;
            }
            advance(2_000).await;
            let snap = match issuer.app.raft_store.get_current_snapshot().await {
                Ok(Some(s)) => s.index,
                _ => 0,
            };
            if snap > 0 {
                sim::count("probe.snapshot_while_token_alive", 1);
            }
            stop_node(1).await;
            let n = start_node(&root, 1, true, None, &cfg.node).await.map_err(|e| Violation::new("harness.start", e.to_string()))?;
            vensure!(wait_leader(&n, 20_000).await.is_some(), "C16.no_leader", "no leader after the restart");
            advance(13_000).await;
            sim::count("probe.restart_from_snapshot", 1);
        }
        // the old token expires on the simulated clock
        let elapsed = sim::now_us() / 1000 - t_old;
        if elapsed < ttl_ms + 2_000 {
            advance(ttl_ms + 2_000 - elapsed).await;
        }
        let issuer = node(1).unwrap();
        let tok_new = login_api(&issuer, "admin", "admin").await.ok_or_else(|| Violation::new("harness.login", "second login refused".to_string()))?;
        let t_new = sim::now_us() / 1000;
        // the node the requests are presented on
        let target_id = if nn > 1 { script["target"].as_u64().unwrap_or(2).min(nn) } else { 1 };
        if nn > 1 && target_id != 1 {
            sim::count("probe.token_presented_on_other_node", 1);
        }
        if situation == "leader_down" && nn > 1 {
            advance(1_500).await;
            // the session must come from the local copy or be refused; nobody can be asked
            let leader = metrics(&node(target_id).unwrap()).current_leader.unwrap_or(1);
            if leader != target_id {
                kill_node(leader).await;
                sim::count("fault.kill_leader", 1);
                advance(500).await;
            }
        } else {
            advance(rng.range(0, 1500)).await;
        }
        let target = node(target_id).ok_or_else(|| Violation::new("harness.start", "target node missing".to_string()))?;
        let app = api_app!(target);
        let toks = vec![
            Tok { label: "absent", value: String::new() },
            Tok { label: "empty", value: String::new() },
            Tok { label: "garbage", value: "0123456789abcdef0123456789abcdef0123456789abcdef0123456789abcdef".to_string() },
            Tok { label: "garbage-short", value: "x".to_string() },
            Tok { label: "expired", value: tok_old.clone() },
            Tok { label: "valid-with-suffix", value: format!("{}0", tok_new) },
            Tok { label: "valid-prefix", value: tok_new[..tok_new.len() - 1].to_string() },
        ];
        // ---- route universe, rebuilt from the working tree ----
        let lits = path_literals();
        let cands = candidate_paths(&lits, &["/nacos", "/rnacos"]);
        sim::count("probe.candidate_paths", cands.len() as u64);
        let auth_hdr = vec![("accessToken".to_string(), tok_new.clone())];
        let mut registered: Vec<String> = vec![];
        for p in &cands {
            let r = call_with(&app, "GET", p, &auth_hdr, "", None).await;
            if r.status != 404 {
                registered.push(p.clone());
            }
        }
        vensure!(registered.len() >= 20, "C16.route_discovery", "only {} of {} candidate paths reach the router with a valid token on node {} (leader down: {}): the valid token is not accepted or the discovery is broken", registered.len(), cands.len(), target_id, situation == "leader_down");
        let mut pairs: Vec<(String, &'static str)> = vec![];
        for p in &registered {
            if !in_scope_api(p) {
                continue;
            }
            for m in METHODS {
                let r = call_with(&app, m, p, &auth_hdr, "", None).await;
                if r.status != 404 && r.status != 405 {
                    // the middleware's refusal is recognisable by its JSON body; handlers may answer 403 for reasons of their own
                    let mw = r.status == 403 && r.text().contains("\"error\":\"Forbidden\"");
                    if r.status == 403 && !mw {
                        sim::count("probe.handler_own_403", 1);
                    }
                    vensure!(!mw, "C16.valid_token_refused", "{} {} with a token issued by a successful login {} ms ago (ttl {} ms) is refused on node {}: {}", m, p, sim::now_us() / 1000 - t_old - ttl_ms, ttl_ms, target_id, r.text());
                    pairs.push((p.clone(), m));
                }
            }
        }
        sim::count("probe.registered_route_methods", pairs.len() as u64);
        // ---- unauthorised sweep: nothing is served, nothing changes ----
        let mut bypasses: Vec<(bool, String)> = vec![];
        // spellings that still reach a handler, established with the valid token before the data is observed
        let mut live_spellings: BTreeMap<usize, Vec<(String, u16)>> = BTreeMap::new();
        for (pi, (p, m)) in pairs.iter().enumerate() {
            if exempt_api(p) {
                continue;
            }
            for sp in spellings(p, &mut rng) {
                let rv = call_with(&app, m, &sp, &auth_hdr, "", None).await;
                if rv.status == 404 || rv.status == 405 || rv.status == 400 && rv.body.is_empty() {
                    continue;
                }
                // in scope: the decoded path is literally under /nacos/ or /rnacos/v1/ (leading duplicate slashes ignored)
                let dec = pct_decode(&sp);
                let dec = format!("/{}", dec.trim_start_matches('/'));
                if !in_scope_api(&dec) {
                    continue;
                }
                sim::count("probe.spelling_reaches_handler", 1);
                live_spellings.entry(pi).or_default().push((sp, rv.status));
            }
        }
        let before = strip_cache(observe(&target, "c16a").await.map_err(|e| Violation::new("C16.observe_failed", e.to_string()))?);
        // per run a PRNG sample of the pairs gets the full token x carrier x spelling product, all others one PRNG combination
        for (pi, (p, m)) in pairs.iter().enumerate() {
            routes_checked += 1;
            let full = (rng.below(pairs.len() as u64)) < sample;
            let exempt = exempt_api(p);
            if exempt {
                continue;
            }
            for (ti, t) in toks.iter().enumerate() {
                let cs: Vec<u64> = if t.label == "absent" { vec![99] } else if full { (0..7).collect() } else { vec![rng.below(7)] };
                for c in cs {
                    let (h, q, f, cname) = if c == 99 { (vec![], String::new(), None, "none") } else { carrier(c, &t.value) };
                    if *m == "GET" && f.is_some() {
                        continue;
                    }
                    let r = call_with(&app, m, p, &h, &q, f).await;
                    if exempt {
                        continue;
                    }
                    vensure!(r.status == 403, "C16.served_without_token", "{} {} with token state '{}' (carrier: {}) answers {} instead of 403 on node {} [{}]: {}", m, p, t.label, cname, r.status, target_id, situation, r.text().chars().take(160).collect::<String>());
                    let _ = ti;
                }
            }
            if exempt {
                continue;
            }
            // spellings that reach a handler with a valid token must be refused without one
            for (sp, st_valid) in live_spellings.get(&pi).cloned().unwrap_or_default() {
                let r0 = call_with(&app, m, &sp, &[], "", None).await;
                if r0.status != 403 {
                    let static_page = r0.text().contains("<!DOCTYPE html>");
                    bypasses.push((static_page, format!("{} {} (spelling of {}; with a valid token: {}) answers {} without any token: {}", m, sp, p, st_valid, r0.status, r0.text().chars().take(80).collect::<String>().replace('\n', " "))));
                }
            }
        }
        if !bypasses.is_empty() {
            bypasses.sort();
            vfail!("C16.spelling_bypass", "{} spellings that reach a handler are served without any token on node {}, e.g. {}", bypasses.len(), target_id, bypasses.iter().take(3).map(|b| b.1.clone()).collect::<Vec<_>>().join(" | "));
        }
        let after = strip_cache(observe(&target, "c16b").await.map_err(|e| Violation::new("C16.observe_failed", e.to_string()))?);
        vensure!(before == after, "C16.data_touched", "the unauthorised sweep changed the node's data: {}", obs_diff(&before, &after));
        // ---- gRPC ----
        // the sweep itself takes simulated time on a cluster (every unknown token is looked up on the leader):
        // the positive control needs a token that is still alive
        let mut tok_new = tok_new;
        let mut valid_control = true;
        if sim::now_us() / 1000 - t_new + 3_000 > ttl_ms {
            match if situation == "leader_down" { None } else { login_api(&node(1).unwrap(), "admin", "admin").await } {
                Some(t) => tok_new = t,
                None => {
                    valid_control = false;
                    sim::count("probe.grpc_valid_control_skipped", 1);
                }
            }
        }
        let srv = grpc_server(&target);
        let types = grpc_request_types();
        sim::count("probe.grpc_request_types", types.len() as u64);
        let cluster_types = ["RaftAppendRequest", "RaftSnapshotRequest", "RaftVoteRequest", "RaftRouteRequest", "NamingRouteRequest"];
        let open_types = ["ServerCheckRequest", "HealthCheckRequest"];
        for t in types.iter().map(|s| s.as_str()).chain(["NoSuchRequest"]) {
            let is_cluster = cluster_types.contains(&t);
            if is_cluster {
                // cluster-internal requests: refused without the cluster token
                for (label, hdr) in [("absent", vec![]), ("wrong", vec![("cluster_token", "nope")]), ("empty", vec![("cluster_token", "")])] {
                    let (pt, code, body) = grpc_call(&srv, t, &hdr).await;
                    vensure!(pt == "ErrorResponse" && body.contains("cluster token is invalid"), "C16.cluster_request_without_token", "gRPC cluster request {} with cluster token {} is not refused: {} {} {}", t, label, pt, code, body.chars().take(120).collect::<String>());
                }
                continue;
            }
            if open_types.contains(&t) {
                continue;
            }
            // with a valid token the request is not refused for authentication
            let (pt, code, body) = grpc_call(&srv, t, &[("accessToken", tok_new.as_str())]).await;
            let known = !(pt == "ErrorResponse" && code == 302);
            if known && valid_control {
                vensure!(!(pt == "ErrorResponse" && code == 403), "C16.valid_token_refused", "gRPC {} with a valid token is refused: {}", t, body.chars().take(120).collect::<String>());
                sim::count("probe.grpc_type_checked", 1);
            }
            for tk in &toks {
                let hdrs: Vec<Vec<(&str, &str)>> = if tk.label == "absent" { vec![vec![], vec![("cluster_token", cfg.node.cluster_token.as_str())]] } else { vec![vec![("accessToken", tk.value.as_str())], vec![("Authorization", tk.value.as_str())]] };
                for h in hdrs {
                    let (pt, code, body) = grpc_call(&srv, t, &h).await;
                    vensure!(pt == "ErrorResponse" && code == 403, "C16.grpc_served_without_token", "gRPC {} with token state '{}' (headers {:?}) is not refused with 403: {} {} {}", t, tk.label, h.iter().map(|x| x.0).collect::<Vec<_>>(), pt, code, body.chars().take(120).collect::<String>());
                }
            }
        }
        let after2 = strip_cache(observe(&target, "c16c").await.map_err(|e| Violation::new("C16.observe_failed", e.to_string()))?);
        vensure!(after == after2, "C16.data_touched", "the unauthorised gRPC sweep changed the node's data: {}", obs_diff(&after, &after2));
        digest = digest_str(&format!("{:?}", pairs));
        Ok(())
    }
    .await;
    let info = RunInfo { digest, nontrivial: routes_checked >= 20, info: json!({"route_methods": routes_checked, "situation": situation}), findings: vec![] };
    for n in live_nodes() {
        kill_node(n.id).await;
    }
    ExecResult { violation: r.err(), info }
}

pub struct C16;
impl Check for C16 {
    fn id(&self) -> &'static str {
        "C16"
    }
    fn generate(&self, seed: u64, _tier: Tier) -> Value {
        let mut rng = Rng::derive(seed, "C16.gen", 0);
        let mut cfg = NCfg::default();
        let situation = *rng.pick(&["single", "single", "snapshot_restart", "snapshot_restart", "other_node", "leader_down"]);
        cfg.nodes = if situation == "other_node" || situation == "leader_down" { 2 } else { 1 };
        cfg.node.auth = true;
        cfg.node.cluster_token = "ct-9f2c".to_string();
        cfg.node.openapi_login_timeout = rng.range(20, 90) as i32;
        cfg.node.snapshot_log_size = if situation == "snapshot_restart" { rng.range(20, 40) } else { 10_000 };
        json!({"check": "C16", "seed": seed, "cfg": cfg, "situation": situation, "target": rng.range(1, 2), "sample": 100000, "steps": []})
    }
    fn execute(&self, script: Value) -> LocalFut<ExecResult> {
        Box::pin(exec_c16(script))
    }
}
