//! Rig-L: the real Raft file store (index, log, snapshot managers + FileStore)
//! driven through the `RaftStorage` trait exactly as async-raft drives it, on the
//! simulated disk. Serves C02 (durability of the log), C03 (truncation), C05
//! (hard state / membership register) and, through crash images, C04.
use crate::core::*;
use crate::{vensure, vfail};
use actix::prelude::*;
use async_raft_ext::raft::{Entry, EntryConfigChange, EntryNormal, EntryPayload, MembershipConfig};
use async_raft_ext::storage::HardState;
use async_raft_ext::RaftStorage;
use quick_protobuf::MessageWrite;
use rnacos::raft::filestore::core::FileStore;
use rnacos::raft::filestore::log::SnapshotRange;
use rnacos::raft::filestore::model::{LogRecordDto, SnapshotHeaderDto};
use rnacos::raft::filestore::raftapply::StateApplyManager;
use rnacos::raft::filestore::raftindex::{RaftIndexManager, RaftIndexRequest, RaftIndexResponse};
use rnacos::raft::filestore::raftlog::{RaftLogManager, RaftLogManagerRequest};
use rnacos::raft::filestore::raftsnapshot::{RaftSnapshotManager, RaftSnapshotRequest, RaftSnapshotResponse, SnapshotWriterRequest};
use rnacos::raft::filestore::StoreUtils;
use rnacos::raft::store::ClientRequest;
use serde::{Deserialize, Serialize};
use serde_json::{json, Value};
use std::collections::{BTreeMap, HashMap, HashSet};
use std::sync::Arc;
use tokio::sim::{self, Rng};

pub struct StoreH {
    pub store: FileStore,
    pub im: Addr<RaftIndexManager>,
    pub lm: Addr<RaftLogManager>,
    pub sm: Addr<RaftSnapshotManager>,
    pub am: Addr<StateApplyManager>,
    pub dir: String,
}

pub const NODE: &str = "n1";

pub fn node_dir(root: &str, node: &str) -> String {
    let epoch = tokio::fs::current_epoch(node);
    format!("{}/{}.e{}", root, node, epoch)
}

pub fn open_store(root: &str, node: &str) -> StoreH {
    let dir = node_dir(root, node);
    std::fs::create_dir_all(&dir).expect("create real dir for db_lock");
    let base = Arc::new(dir.clone());
    let im = RaftIndexManager::new(base.clone()).start();
    let lm = RaftLogManager::new(base.clone(), Some(im.clone())).start();
    let sm = RaftSnapshotManager::new(base.clone(), Some(im.clone())).start();
    let am = StateApplyManager::new().start();
    let store = FileStore::new(1, im.clone(), sm.clone(), lm.clone(), am.clone());
    sim::event(&format!("store open {}", dir.rsplit('/').next().unwrap_or("")));
    StoreH { store, im, lm, sm, am, dir }
}

/// clean close: everything issued reaches the disk, then the incarnation is fenced
pub async fn close_clean(h: StoreH, node: &str) {
    settle().await;
    drop(h);
    tokio::fs::crash(node);
}

/// kill: only completed mutations survive
pub fn kill(h: StoreH, node: &str) {
    tokio::fs::crash(node);
    drop(h);
}

// ---------------------------------------------------------------------------
// script

#[derive(Serialize, Deserialize, Clone, Debug, PartialEq)]
#[serde(tag = "op")]
pub enum LStep {
    /// append one entry at the next index; `kind`: 0 normal(pad), 1 blank, 2 config-change
    Append { pad: usize, kind: u8, term_up: bool },
    /// follower path: replicate a batch
    /// `term_step`: every entry of the batch has its own term (a follower catching up across several short leaderships),
    /// so that wherever a log-file roll-over falls inside the batch the term changes there
    Replicate { pads: Vec<usize>, term_up: bool, #[serde(default)] term_step: bool },
    /// conflict truncation: delete from `last+1-back` (back==0: beyond the end)
    /// `file_start`: cut at the first index of the newest log file (when the log spans several files), which leaves an
    /// empty tail file behind
    DeleteFrom { back: u64, #[serde(default)] file_start: bool },
    HardState { term_up: u64, vote: u64 },
    Member { members: Vec<u64>, after: Vec<u64>, addr_len: usize },
    NodeAddr { id: u64, addr_len: usize },
    /// what do_log_compaction does to the store: snapshot file + catalogue + pointer log
    Compact { back: u64 },
    /// what finalize_snapshot_installation does to the log: pointer at last+rel (rel < 0: the
    /// snapshot covers a prefix of the log, delete_through = Some; rel >= 0: delete_through = None)
    InstallPointer { rel: i64 },
    SaveApplied { back: u64 },
    Advance { ms: u64 },
    Reopen,
    /// kill -9 and restart
    Crash,
    /// kill -9 at once: no settling, no observation since the previous step's acknowledgement
    CrashNow,
}

#[derive(Serialize, Deserialize, Clone, Debug)]
pub struct LCfg {
    pub interval: u16,
    pub area: u16,
    pub p_delay: f64,
    pub max_delay_us: u64,
    pub p_yield: f64,
    /// fault configuration (all zero in the fault-free configuration)
    pub p_eio_write: f64,
    pub p_enospc_write: f64,
    pub p_short_write: f64,
    pub p_short_read: f64,
    pub first_index: u64,
}

impl Default for LCfg {
    fn default() -> Self {
        LCfg {
            interval: 0,
            area: 0,
            p_delay: 0.0,
            max_delay_us: 0,
            p_yield: 0.0,
            p_eio_write: 0.0,
            p_enospc_write: 0.0,
            p_short_write: 0.0,
            p_short_read: 0.0,
            first_index: 1,
        }
    }
}

impl LCfg {
    pub fn faulty(&self) -> bool {
        self.p_eio_write > 0.0 || self.p_enospc_write > 0.0
    }
    pub fn disk(&self) -> tokio::fs::DiskCfg {
        tokio::fs::DiskCfg {
            p_delay: self.p_delay,
            max_delay_us: self.max_delay_us,
            p_yield: self.p_yield,
            p_eio_write: self.p_eio_write,
            p_enospc_write: self.p_enospc_write,
            p_short_write: self.p_short_write,
            p_short_read: self.p_short_read,
            ..Default::default()
        }
    }
}

// ---------------------------------------------------------------------------
// entries

/// canonical JSON of a payload; membership sets are sorted (HashSet order is not part of the value)
pub fn payload_json(p: &EntryPayload<ClientRequest>) -> String {
    let mut v = serde_json::to_value(p).unwrap_or_default();
    fn norm(v: &mut Value) {
        match v {
            Value::Object(m) => {
                for (k, x) in m.iter_mut() {
                    if k == "members" || k == "members_after_consensus" {
                        if let Value::Array(a) = x {
                            a.sort_by_key(|e| e.as_u64().unwrap_or(0));
                        }
                    }
                    norm(x);
                }
            }
            Value::Array(a) => a.iter_mut().for_each(norm),
            _ => {}
        }
    }
    norm(&mut v);
    v.to_string()
}

pub fn mk_payload(uniq: u64, pad: usize, kind: u8) -> EntryPayload<ClientRequest> {
    match kind {
        1 => EntryPayload::Blank,
        2 => EntryPayload::ConfigChange(EntryConfigChange {
            membership: MembershipConfig {
                members: [1u64, 2, 3 + (uniq % 5)].iter().cloned().collect(),
                members_after_consensus: None,
            },
        }),
        _ => EntryPayload::Normal(EntryNormal {
            data: ClientRequest::ConfigRemove {
                key: format!("u{}-{}", uniq, "x".repeat(pad)),
            },
        }),
    }
}

/// on-disk frame size of a log record
pub fn frame_size(index: u64, term: u64, payload: &EntryPayload<ClientRequest>) -> usize {
    let e = Entry { index, term, payload: payload.clone() };
    let rec = StoreUtils::entry_to_record(&e).unwrap();
    let sz = rec.to_record_do().get_size();
    sz + varint_len(sz as u64)
}

pub fn varint_len(mut v: u64) -> usize {
    let mut n = 1;
    while v > 0x7f {
        v >>= 7;
        n += 1;
    }
    n
}

// ---------------------------------------------------------------------------
// reference model

#[derive(Clone, Debug, PartialEq)]
pub struct MEntry {
    pub term: u64,
    pub payload: String,
}

#[derive(Clone, Debug, Default)]
pub struct LModel {
    pub entries: BTreeMap<u64, MEntry>,
    /// lowest readable index (compaction pointer / split-off)
    pub low: u64,
    /// next index to append
    pub next: u64,
    pub started: bool,
    pub term: u64,
    pub hs: Option<(u64, u64)>,
    pub members: Option<(Vec<u64>, Vec<u64>)>,
    pub addrs: BTreeMap<u64, String>,
    /// payload digests of entries that were removed by truncation and not re-submitted
    pub removed: HashSet<String>,
    pub submitted: HashSet<String>,
    /// compaction pointer staged by the previous Compact (the code applies the previous one)
    pub staged_pointer: Option<(u64, u64, String)>,
    pub snapshots: Vec<(u64, u64)>,
    pub applied: u64,
    /// entry (index) whose presence is undetermined because its operation failed under faults
    pub uncertain_from: Option<u64>,
    /// every acknowledged version of the register (hard state, membership, addresses)
    pub reg_history: Vec<Reg>,
    /// index into reg_history of the newest version known to have completed on disk
    pub reg_durable: Option<usize>,
    /// next log index at the last point where everything acknowledged was known durable
    pub next_durable: u64,
    /// set by CrashNow: the register may legitimately be any version in reg_history[reg_durable..]
    pub reg_window: Option<Option<usize>>,
}

#[derive(Clone, Debug, Default, PartialEq)]
pub struct Reg {
    pub hs: Option<(u64, u64)>,
    pub members: Option<(Vec<u64>, Vec<u64>)>,
    pub addrs: BTreeMap<u64, String>,
}

impl LModel {
    pub fn reg(&self) -> Reg {
        Reg { hs: self.hs, members: self.members.clone(), addrs: self.addrs.clone() }
    }
    pub fn push_reg(&mut self) {
        let r = self.reg();
        self.reg_history.push(r);
    }
    pub fn last(&self) -> Option<(u64, &MEntry)> {
        self.entries.iter().next_back().map(|(k, v)| (*k, v))
    }
    pub fn readable(&self) -> Vec<(u64, &MEntry)> {
        self.entries.range(self.low..).map(|(k, v)| (*k, v)).collect()
    }
}

// ---------------------------------------------------------------------------
// executor

pub struct LExec {
    pub id: &'static str,
    pub root: String,
    pub h: Option<StoreH>,
    pub m: LModel,
    pub cfg: LCfg,
    pub uniq: u64,
    pub rng: Rng,
    pub probes: BTreeMap<&'static str, u64>,
    pub failed_ops: u64,
    pub reopens: u64,
    pub next_snapshot_id: u64,
    pub findings: Vec<Violation>,
    pub log_checks_off: bool,
}

fn clause(id: &str, c: &str) -> String {
    format!("{}.{}", id, c)
}

impl LExec {
    pub fn new(id: &'static str, seed: u64, cfg: LCfg) -> Self {
        let mut m = LModel::default();
        m.next = cfg.first_index;
        m.low = 0;
        m.term = 1;
        LExec {
            id,
            root: run_root(seed),
            h: None,
            m,
            cfg,
            uniq: 0,
            rng: Rng::derive(seed, "lexec", 0),
            probes: BTreeMap::new(),
            failed_ops: 0,
            reopens: 0,
            next_snapshot_id: 1,
            findings: vec![],
            log_checks_off: false,
        }
    }

    fn probe(&mut self, name: &'static str) {
        *self.probes.entry(name).or_insert(0) += 1;
        sim::count(&format!("probe.{}", name), 1);
    }

    pub fn store(&self) -> &FileStore {
        &self.h.as_ref().unwrap().store
    }

    pub fn open(&mut self) {
        rnacos::verif_hook::set_log_knob(self.cfg.interval, self.cfg.area);
        self.h = Some(open_store(&self.root, NODE));
    }

    fn next_entry(&mut self, pad: usize, kind: u8) -> Entry<ClientRequest> {
        self.uniq += 1;
        let payload = mk_payload(self.uniq, pad, kind);
        Entry {
            index: self.m.next,
            term: self.m.term,
            payload,
        }
    }

    fn record_alignment_probe(&mut self, e: &Entry<ClientRequest>) {
        let fs = frame_size(e.index, e.term, &e.payload);
        if fs > 1024 {
            self.probe("record_gt_1024");
        }
        if fs >= 16384 {
            self.probe("record_ge_16k");
        }
    }

    pub async fn step(&mut self, step: &LStep) -> VResult<()> {
        let id = self.id;
        match step {
            LStep::Append { pad, kind, term_up } => {
                if *term_up {
                    self.m.term += 1;
                }
                let e = self.next_entry(*pad, *kind);
                self.record_alignment_probe(&e);
                let pj = payload_json(&e.payload);
                self.m.submitted.insert(pj.clone());
                let r = within(60_000, self.store().append_entry_to_log(&e)).await;
                match r {
                    None => vfail!(&clause(id, "op_hang"), "append_entry_to_log({}) did not answer within 60 simulated s", e.index),
                    Some(Ok(())) => {
                        sim::event(&format!("ack append {}", e.index));
                        self.m.entries.insert(e.index, MEntry { term: e.term, payload: pj });
                        self.m.next = e.index + 1;
                        self.m.started = true;
                    }
                    Some(Err(err)) => {
                        if self.cfg.faulty() || self.log_checks_off {
                            self.failed_ops += 1;
                            self.note_uncertain(e.index);
                            sim::event(&format!("fail append {} {}", e.index, err));
                        } else {
                            vfail!(&clause(id, "append_rejected"), "append at index {} (the next index) was rejected: {}", e.index, err);
                        }
                    }
                }
            }
            LStep::Replicate { pads, term_up, term_step } => {
                if *term_up {
                    self.m.term += 1;
                }
                let mut batch = vec![];
                let first = self.m.next;
                for (i, pad) in pads.iter().enumerate() {
                    self.uniq += 1;
                    if *term_step && i > 0 {
                        self.m.term += 1;
                    }
                    let payload = mk_payload(self.uniq, *pad, 0);
                    batch.push(Entry { index: first + i as u64, term: self.m.term, payload });
                }
                if *term_step {
                    self.probe("batch_with_a_term_per_entry");
                }
                for e in &batch {
                    self.record_alignment_probe(e);
                    self.m.submitted.insert(payload_json(&e.payload));
                }
                let r = within(120_000, self.store().replicate_to_log(&batch)).await;
                match r {
                    None => vfail!(&clause(id, "op_hang"), "replicate_to_log did not answer within 120 simulated s"),
                    Some(Ok(())) => {
                        sim::event(&format!("ack replicate {}..{}", first, first + batch.len() as u64));
                        for e in &batch {
                            self.m.entries.insert(e.index, MEntry { term: e.term, payload: payload_json(&e.payload) });
                        }
                        self.m.next = first + batch.len() as u64;
                        if !batch.is_empty() {
                            self.m.started = true;
                        }
                    }
                    Some(Err(err)) => {
                        if self.cfg.faulty() || self.log_checks_off {
                            self.failed_ops += 1;
                            self.note_uncertain(first);
                        } else {
                            vfail!(&clause(id, "append_rejected"), "replicate batch at {} rejected: {}", first, err);
                        }
                    }
                }
            }
            LStep::DeleteFrom { back, file_start } => {
                if !self.m.started {
                    return Ok(());
                }
                let last = self.m.next - 1;
                let mut k = if *back == 0 { self.m.next + 1 } else { (last + 1).saturating_sub(*back).max(self.m.low.max(1)) };
                if *file_start {
                    if let Ok(Ok(RaftIndexResponse::RaftIndexInfo { raft_index, .. })) = self.h.as_ref().unwrap().im.send(RaftIndexRequest::LoadIndexInfo).await {
                        if raft_index.logs.len() > 1 {
                            if let Some(lr) = raft_index.logs.last() {
                                if lr.start_index > self.m.low && lr.start_index <= last {
                                    k = lr.start_index;
                                    self.probe("truncate_at_first_index_of_newest_file");
                                }
                            }
                        }
                    }
                }
                // async-raft never truncates at or below the compaction pointer
                if k <= self.m.low && self.m.low > 0 {
                    return Ok(());
                }
                // ... nor at or below what has been applied (committed entries are never removed)
                if k <= self.m.applied {
                    return Ok(());
                }
                let r = within(60_000, self.store().delete_logs_from(k, None)).await;
                match r {
                    None => vfail!(&clause(id, "op_hang"), "delete_logs_from({}) did not answer", k),
                    Some(Ok(())) => {
                        sim::event(&format!("ack delete_from {}", k));
                        let gone: Vec<u64> = self.m.entries.range(k..).map(|(i, _)| *i).collect();
                        if !gone.is_empty() {
                            self.probe("truncate_nonempty");
                        }
                        for i in gone {
                            if let Some(e) = self.m.entries.remove(&i) {
                                self.m.removed.insert(e.payload);
                            }
                        }
                        if k < self.m.next {
                            self.m.next = k;
                        }
                        if let Some(u) = self.m.uncertain_from {
                            if u >= k {
                                self.m.uncertain_from = None;
                            }
                        }
                    }
                    Some(Err(err)) => {
                        if self.cfg.faulty() {
                            self.failed_ops += 1;
                        } else {
                            vfail!(&clause(id, "delete_rejected"), "delete_logs_from({}) failed: {}", k, err);
                        }
                    }
                }
            }
            LStep::HardState { term_up, vote } => {
                let term = self.m.hs.map(|h| h.0).unwrap_or(0) + term_up;
                let hs = HardState { current_term: term, voted_for: if *vote == 0 { None } else { Some(*vote) } };
                let r = within(60_000, self.store().save_hard_state(&hs)).await;
                match r {
                    None => vfail!(&clause(id, "op_hang"), "save_hard_state did not answer"),
                    Some(Ok(())) => {
                        sim::event(&format!("ack hard_state {} {}", term, vote));
                        self.m.hs = Some((term, *vote));
                        self.m.push_reg();
                    }
                    Some(Err(err)) => vfail!(&clause(id, "hard_state_rejected"), "save_hard_state failed: {}", err),
                }
            }
            LStep::Member { members, after, addr_len } => {
                let mut addrs = HashMap::new();
                for m in members.iter().chain(after.iter()) {
                    addrs.insert(*m, Arc::new(format!("10.0.0.{}:{}", m, "9".repeat(*addr_len))));
                }
                let h = self.h.as_ref().unwrap();
                let r = h
                    .im
                    .send(RaftIndexRequest::SaveMember {
                        member: members.clone(),
                        member_after_consensus: Some(after.clone()),
                        // addr_len 0: a membership save without an address table (what applying ClientRequest::Members sends):
                        // the stored addresses stay as they are
                        node_addr: if *addr_len == 0 { None } else { Some(addrs.clone()) },
                    })
                    .await;
                match r {
                    Ok(Ok(_)) => {
                        self.m.members = Some((members.clone(), after.clone()));
                        if *addr_len > 0 {
                            self.m.addrs = addrs.iter().map(|(k, v)| (*k, v.as_ref().clone())).collect();
                        } else {
                            sim::count("probe.member_saved_without_addresses", 1);
                        }
                        self.m.push_reg();
                        sim::event("ack member");
                    }
                    other => vfail!(&clause(id, "member_rejected"), "SaveMember failed: {:?}", other.map(|r| r.map(|_| ()).map_err(|e| e.to_string()))),
                }
            }
            LStep::NodeAddr { id: nid, addr_len } => {
                let addr = format!("10.1.0.{}:{}", nid, "8".repeat(*addr_len));
                let h = self.h.as_ref().unwrap();
                let r = h.im.send(RaftIndexRequest::AddNodeAddr(*nid, Arc::new(addr.clone()))).await;
                match r {
                    Ok(Ok(_)) => {
                        self.m.addrs.insert(*nid, addr);
                        self.m.push_reg();
                        sim::event("ack node_addr");
                    }
                    other => vfail!(&clause(id, "addr_rejected"), "AddNodeAddr failed: {:?}", other.map(|r| r.map(|_| ()).map_err(|e| e.to_string()))),
                }
            }
            LStep::SaveApplied { back } => {
                if !self.m.started {
                    return Ok(());
                }
                let v = (self.m.next - 1).saturating_sub(*back).max(self.m.applied);
                let h = self.h.as_ref().unwrap();
                h.im.send(RaftIndexRequest::SaveLastAppliedLog(v)).await.ok();
                self.m.applied = v;
            }
            LStep::Compact { back } => {
                self.compact(*back).await?;
            }
            LStep::InstallPointer { rel } => {
                self.install_pointer(*rel).await?;
            }
            LStep::Advance { ms } => {
                advance(*ms).await;
            }
            LStep::Reopen => {
                let h = self.h.take().unwrap();
                close_clean(h, NODE).await;
                self.reopens += 1;
                self.note_reopen_probes();
                self.open();
                self.after_reopen_model_fixups();
            }
            LStep::Crash => {
                // everything acknowledged so far whose write completed survives; C02/C03 scripts
                // settle first (the property quantifies over reopen, C04 over crash points)
                settle().await;
                let h = self.h.take().unwrap();
                kill(h, NODE);
                self.reopens += 1;
                self.open();
                self.after_reopen_model_fixups();
            }
            LStep::CrashNow => {
                let h = self.h.take().unwrap();
                kill(h, NODE);
                self.reopens += 1;
                self.probe("crash_now");
                // log entries acknowledged since the last durable point may or may not have completed
                if self.m.next > self.m.next_durable {
                    let nd = self.m.next_durable;
                    self.note_uncertain(nd);
                }
                self.m.reg_window = Some(self.m.reg_durable);
                self.open();
                self.after_reopen_model_fixups();
                if self.id == "C05" {
                    // C05 is about the register; what a kill may do to the log is C04's subject
                    self.log_checks_off = true;
                    if let Some(Ok(st)) = within(60_000, self.store().get_initial_state()).await {
                        if self.m.started {
                            self.m.next = st.last_log_index + 1;
                        }
                    }
                    self.m.uncertain_from = None;
                } else {
                    self.resync_log_after_kill().await?;
                }
            }
        }
        Ok(())
    }

    /// After a kill without settling the tail acknowledged since the last durable point may be
    /// gone. Whatever is there must be a prefix of what was acknowledged and must include everything
    /// known durable; the model is then cut to what survived.
    async fn resync_log_after_kill(&mut self) -> VResult<()> {
        let id = self.id;
        if !self.m.started {
            return Ok(());
        }
        let hi = self.m.next + 5;
        let got = match within(120_000, self.store().get_log_entries(0, hi)).await {
            Some(Ok(v)) => v,
            other => vfail!(&clause(id, "read_error"), "get_log_entries after kill failed: {:?}", other.map(|r| r.map(|v| v.len()).map_err(|e| e.to_string()))),
        };
        self.compare_entries(&got, 0, hi, "after kill")?;
        let last = got.last().map(|e| e.index);
        let next = match last {
            Some(l) => l + 1,
            None => self.m.low.max(self.cfg.first_index),
        };
        vensure!(next >= self.m.next_durable, &clause(id, "durable_lost"), "after kill the log ends at {} but entries up to {} had completed on disk before the kill", next.saturating_sub(1), self.m.next_durable.saturating_sub(1));
        let cut: Vec<u64> = self.m.entries.range(next..).map(|(i, _)| *i).collect();
        for i in cut {
            self.m.entries.remove(&i);
        }
        if next < self.m.next {
            self.m.next = next;
        }
        self.m.uncertain_from = None;
        Ok(())
    }

    /// everything acknowledged so far has been observed through the index manager (its mailbox is
    /// blocked while a catalogue write is in flight) and no disk mutation is pending: durable.
    pub fn mark_durable(&mut self) {
        if tokio::fs::pending_ops() == 0 {
            self.m.reg_durable = self.m.reg_history.len().checked_sub(1);
            if self.m.uncertain_from.is_none() {
                self.m.next_durable = self.m.next;
            }
        }
    }

    fn note_uncertain(&mut self, index: u64) {
        if self.m.uncertain_from.map(|u| index < u).unwrap_or(true) {
            self.m.uncertain_from = Some(index);
        }
    }

    fn after_reopen_model_fixups(&mut self) {
        // a compaction pointer that was only staged in memory is forgotten by a restart
        self.m.staged_pointer = None;
    }

    fn note_reopen_probes(&mut self) {
        let files = tokio::fs::list_files(&format!("{}/{}/", self.root, NODE));
        let mut logs = 0;
        for (name, len) in &files {
            if name.ends_with("/index") && *len <= 20 {
                self.probe("reopen_catalogue_le_20");
            }
            if name.contains("/log_") {
                logs += 1;
                if let Some(data) = tokio::fs::read_file_raw(name) {
                    if data.last().map(|b| *b != 0).unwrap_or(false) {
                        self.probe("record_ends_at_file_end");
                    }
                }
            }
        }
        if logs >= 2 {
            self.probe("reopen_multi_file");
        }
        if logs >= 3 {
            self.probe("reopen_3plus_files");
        }
    }

    /// what `do_log_compaction` does to the store, minus the state machine
    async fn compact(&mut self, back: u64) -> VResult<()> {
        let id = self.id;
        if !self.m.started || self.m.entries.is_empty() {
            return Ok(());
        }
        let last = self.m.next - 1;
        let mut at = last.saturating_sub(back);
        let floor = self.m.snapshots.last().map(|s| s.1 + 1).unwrap_or(self.m.low.max(1));
        if at < floor {
            at = floor;
        }
        if at > last || !self.m.entries.contains_key(&at) {
            return Ok(());
        }
        let term = self.m.entries.get(&at).map(|e| e.term).unwrap_or(self.m.term);
        let h = self.h.as_ref().unwrap();
        // do_build_snapshot takes the membership from the index manager (empty when none was saved)
        let (members, after) = self.m.members.clone().unwrap_or((vec![], vec![]));
        let header = SnapshotHeaderDto {
            last_index: at,
            last_term: term,
            member: members.clone(),
            member_after_consensus: after.clone(),
            node_addrs: self.m.addrs.iter().map(|(k, v)| (*k, Arc::new(v.clone()))).collect(),
        };
        let (writer, sid, _path) = match h.sm.send(RaftSnapshotRequest::NewSnapshot(header)).await {
            Ok(Ok(RaftSnapshotResponse::NewSnapshot(w, sid, p))) => (w, sid, p),
            _ => vfail!(&clause(id, "compact_rejected"), "NewSnapshot refused"),
        };
        writer.send(SnapshotWriterRequest::Flush).await.ok();
        h.sm.send(RaftSnapshotRequest::CompleteSnapshot(SnapshotRange { id: sid, end_index: at })).await.ok();
        let membership = MembershipConfig {
            members: members.iter().cloned().collect(),
            members_after_consensus: if after.is_empty() { None } else { Some(after.iter().cloned().collect()) },
        };
        let entry: Entry<ClientRequest> = Entry::new_snapshot_pointer(at, term, sid.to_string(), membership);
        let record = StoreUtils::entry_to_record(&entry).unwrap();
        let pj = payload_json(&entry.payload);
        h.lm.send(RaftLogManagerRequest::BuildSnapshotPointerLog(record)).await.ok();
        sim::event(&format!("ack compact at={} sid={}", at, sid));
        self.m.snapshots.push((sid, at));
        if self.m.snapshots.len() > 2 {
            self.m.snapshots.remove(0);
        }
        // the code applies the *previous* pointer now and stages this one
        if let Some((pidx, pterm, ppj)) = self.m.staged_pointer.take() {
            self.apply_pointer_to_model(pidx, pterm, ppj);
            self.probe("pointer_applied");
        }
        self.m.staged_pointer = Some((at, term, pj));
        settle().await;
        Ok(())
    }

    fn apply_pointer_to_model(&mut self, idx: u64, term: u64, pj: String) {
        if idx < self.m.low {
            return;
        }
        let below: Vec<u64> = self.m.entries.range(..idx).map(|(i, _)| *i).collect();
        for i in below {
            self.m.entries.remove(&i);
        }
        self.m.entries.insert(idx, MEntry { term, payload: pj.clone() });
        self.m.submitted.insert(pj);
        self.m.low = idx;
        if self.m.next <= idx {
            self.m.next = idx + 1;
        }
    }

    /// what `finalize_snapshot_installation` does to the log, with async-raft's choice of
    /// `delete_through` (Some(index) iff the log extends beyond the snapshot)
    async fn install_pointer(&mut self, rel: i64) -> VResult<()> {
        if !self.m.started {
            return Ok(());
        }
        let last = self.m.next - 1;
        let idx = (last as i64 + rel).max(self.m.low as i64 + 1).max(1) as u64;
        let delete_through = if last > idx { Some(idx) } else { None };
        let term = match self.m.entries.get(&idx) {
            Some(e) => e.term,
            None => self.m.term,
        };
        let h = self.h.as_ref().unwrap();
        // the snapshot itself, as async-raft delivers it: create_snapshot (real), stream the bytes, then
        // the snapshot manager's InstallSnapshot (first request of finalize_snapshot_installation)
        let (sid_str, mut file) = match within(60_000, h.store.create_snapshot()).await {
            Some(Ok(v)) => v,
            _ => return Ok(()), // a compaction is being packaged: async-raft would retry
        };
        let sid: u64 = sid_str.parse().unwrap_or(0);
        {
            use tokio::io::AsyncWriteExt;
            let (members, after) = self.m.members.clone().unwrap_or((vec![1], vec![]));
            let header = SnapshotHeaderDto {
                last_index: idx,
                last_term: term,
                member: members,
                member_after_consensus: after,
                node_addrs: self.m.addrs.iter().map(|(k, v)| (*k, Arc::new(v.clone()))).collect(),
            };
            let mut buf = Vec::new();
            let mut w = quick_protobuf::Writer::new(&mut buf);
            w.write_message(&header.to_record_do()).ok();
            file.write_all(&buf).await.ok();
            file.shutdown().await.ok();
        }
        h.sm.send(RaftSnapshotRequest::InstallSnapshot { end_index: idx, snapshot_id: sid }).await.ok();
        // second request of finalize_snapshot_installation: ApplySnapshot saves the membership of the
        // new snapshot's header (the state machine part is absent in Rig-L)
        {
            let (members, after) = self.m.members.clone().unwrap_or((vec![1], vec![]));
            h.im.send(RaftIndexRequest::SaveMember {
                member: members.clone(),
                member_after_consensus: if after.is_empty() { None } else { Some(after.clone()) },
                node_addr: Some(self.m.addrs.iter().map(|(k, v)| (*k, Arc::new(v.clone()))).collect()),
            })
            .await
            .ok();
            if self.m.members.is_none() {
                self.m.members = Some((members, after));
                self.m.push_reg();
            }
        }
        self.m.snapshots.push((sid, idx));
        if self.m.snapshots.len() > 2 {
            self.m.snapshots.remove(0);
        }
        let split_off_index = if let Some(v) = delete_through { v + 1 } else { u64::MAX }; // mirrors FileStore::finalize_snapshot_installation
        h.lm.send(RaftLogManagerRequest::SplitOff(split_off_index)).await.ok();
        let entry: Entry<ClientRequest> = Entry::new_snapshot_pointer(idx, term, sid.to_string(), MembershipConfig { members: [1u64].iter().cloned().collect(), members_after_consensus: None });
        let record = StoreUtils::entry_to_record(&entry).unwrap();
        let pj = payload_json(&entry.payload);
        h.lm.send(RaftLogManagerRequest::InstallSnapshotPointerLog(record)).await.ok();
        sim::event(&format!("ack install_pointer idx={} delete_through={:?}", idx, delete_through));
        // an installed snapshot supersedes the pointer staged by an earlier local compaction
        self.m.staged_pointer = None;
        // an installed snapshot replaces the log up to and including idx; with delete_through = None
        // it replaces all of it (async-raft continues at idx + 1)
        if delete_through.is_none() {
            let all: Vec<u64> = self.m.entries.keys().cloned().collect();
            for i in all {
                if let Some(e) = self.m.entries.remove(&i) {
                    self.m.removed.insert(e.payload);
                }
            }
            self.m.next = idx + 1;
            self.probe("install_pointer_ahead");
        } else {
            self.probe("install_pointer_inside");
        }
        self.apply_pointer_to_model(idx, term, pj);
        settle().await;
        Ok(())
    }

    // -----------------------------------------------------------------------
    // oracle

    pub async fn check_log(&mut self, when: &str) -> VResult<()> {
        let id = self.id;
        if self.log_checks_off {
            return Ok(());
        }
        let hi = self.m.next + 5;
        let got = match within(120_000, self.store().get_log_entries(0, hi)).await {
            None => vfail!(&clause(id, "op_hang"), "get_log_entries did not answer ({})", when),
            Some(Err(e)) => {
                if self.cfg.faulty() {
                    return Ok(());
                }
                vfail!(&clause(id, "read_error"), "get_log_entries(0,{}) failed {}: {}", hi, when, e)
            }
            Some(Ok(v)) => v,
        };
        self.compare_entries(&got, 0, hi, when)?;
        // a few sub-ranges
        let lo_bound = self.m.low;
        if self.m.next > lo_bound + 1 {
            for _ in 0..2 {
                let a = self.rng.range(lo_bound, self.m.next - 1);
                let b = self.rng.range(a, self.m.next + 1);
                let got = match within(120_000, self.store().get_log_entries(a, b)).await {
                    Some(Ok(v)) => v,
                    Some(Err(_)) if self.cfg.faulty() => continue,
                    other => vfail!(&clause(id, "read_error"), "get_log_entries({},{}) failed {}: {:?}", a, b, when, other.map(|r| r.map(|v| v.len()).map_err(|e| e.to_string()))),
                };
                self.compare_entries(&got, a, b, when)?;
            }
        }
        Ok(())
    }

    fn compare_entries(&mut self, got: &[Entry<ClientRequest>], a: u64, b: u64, when: &str) -> VResult<()> {
        let id = self.id;
        let lo = a.max(self.m.low);
        let uncertain = self.m.uncertain_from;
        let want: Vec<(u64, MEntry)> = self.m.entries.range(lo..b.max(lo)).map(|(k, v)| (*k, v.clone())).collect();
        // never: a foreign or removed payload, a changed entry, a gap
        let mut prev: Option<u64> = None;
        for e in got {
            let pj = payload_json(&e.payload);
            if let Some(p) = prev {
                vensure!(e.index == p + 1, &clause(id, "gap"), "{}: entries not contiguous: {} follows {} in range [{},{})", when, e.index, p, a, b);
            }
            prev = Some(e.index);
            vensure!(e.index >= lo && e.index < b, &clause(id, "out_of_range"), "{}: entry {} returned for range [{},{}) (readable from {})", when, e.index, a, b, lo);
            match self.m.entries.get(&e.index) {
                Some(m) => {
                    vensure!(m.term == e.term && m.payload == pj, &clause(id, "changed_entry"), "{}: entry {} differs: term {} vs {}, payload {} vs {}", when, e.index, e.term, m.term, trunc(&pj), trunc(&m.payload));
                }
                None => {
                    if uncertain.map(|u| e.index >= u).unwrap_or(false) && self.m.submitted.contains(&pj) {
                        continue;
                    }
                    if self.m.removed.contains(&pj) {
                        vfail!(&clause(id, "removed_returned"), "{}: entry {} carries the payload of a removed entry: {}", when, e.index, trunc(&pj));
                    }
                    if !self.m.submitted.contains(&pj) {
                        vfail!(&clause(id, "invented"), "{}: entry {} was never submitted: {}", when, e.index, trunc(&pj));
                    }
                    vfail!(&clause(id, "extra_entry"), "{}: entry {} returned but the log ends at {} (range [{},{}))", when, e.index, self.m.next.saturating_sub(1), a, b);
                }
            }
        }
        // nothing acknowledged may be missing
        let got_idx: HashSet<u64> = got.iter().map(|e| e.index).collect();
        for (i, _) in &want {
            if uncertain.map(|u| *i >= u).unwrap_or(false) {
                continue;
            }
            vensure!(got_idx.contains(i), &clause(id, "missing"), "{}: acknowledged entry {} missing from range [{},{}): got {} entries {:?}..{:?}, expected {}..{}", when, i, a, b, got.len(), got.first().map(|e| e.index), got.last().map(|e| e.index), want.first().map(|w| w.0).unwrap_or(0), want.last().map(|w| w.0).unwrap_or(0));
        }
        Ok(())
    }

    pub async fn check_state(&mut self, when: &str, after_reopen: bool) -> VResult<()> {
        let id = self.id;
        let st = match within(60_000, self.store().get_initial_state()).await {
            Some(Ok(s)) => s,
            other => vfail!(&clause(id, "state_error"), "get_initial_state failed {}: {:?}", when, other.map(|r| r.map(|_| ()).map_err(|e| e.to_string()))),
        };
        if self.m.uncertain_from.is_none() && !self.log_checks_off {
            if let Some((li, le)) = self.m.last() {
                vensure!(st.last_log_index == li, &clause(id, "last_index"), "{}: last_log_index {} but the last acknowledged entry is {}", when, st.last_log_index, li);
                if after_reopen {
                    vensure!(st.last_log_term == le.term, &clause(id, "last_term"), "{}: last_log_term {} but the last entry {} has term {}", when, st.last_log_term, li, le.term);
                }
            }
        }
        if let Some(durable) = self.m.reg_window.take() {
            // after a kill without settling: the register must be one of the versions acknowledged
            // since the last version known durable (or that one) - never older, never a mix
            let mut obs_addrs = BTreeMap::new();
            let ids: HashSet<u64> = self.m.reg_history.iter().flat_map(|r| r.addrs.keys().cloned()).collect();
            for nid in ids {
                if let Ok(a) = self.store().get_target_addr(nid).await {
                    obs_addrs.insert(nid, a.as_ref().clone());
                }
            }
            let obs_hs = (st.hard_state.current_term, st.hard_state.voted_for.unwrap_or(0));
            let mut obs_members: Vec<u64> = st.membership.members.iter().cloned().collect();
            obs_members.sort();
            let mut obs_after: Vec<u64> = st.membership.members_after_consensus.clone().unwrap_or_default().into_iter().collect();
            obs_after.sort();
            let matches = |r: &Reg| -> bool {
                let hs = r.hs.unwrap_or((0, 0));
                let (mut m, mut a) = r.members.clone().unwrap_or((vec![], vec![]));
                m.sort();
                a.sort();
                hs == obs_hs && m == obs_members && a == obs_after && r.addrs == obs_addrs
            };
            let n = self.m.reg_history.len();
            let lo = durable.map(|d| d as i64).unwrap_or(-1);
            let mut found: Option<i64> = None;
            let mut j = n as i64 - 1;
            while j >= lo {
                let ok = if j < 0 { matches(&Reg::default()) } else { matches(&self.m.reg_history[j as usize]) };
                if ok {
                    found = Some(j);
                    break;
                }
                j -= 1;
            }
            match found {
                None => vfail!(&clause(id, "register_regress"), "{}: after a kill the register (term,vote)={:?} members={:?}/{:?} addrs={:?} equals no version acknowledged since the last durable one (versions {}..{} of {:?})", when, obs_hs, obs_members, obs_after, obs_addrs, lo, n as i64 - 1, self.m.reg_history),
                Some(j) => {
                    if j < n as i64 - 1 {
                        self.probe("ack_before_durable_seen");
                        let lost = &self.m.reg_history[n - 1];
                        self.findings.push(Violation::new(&clause(id, "ack_before_durable"), format!("{}: a save was acknowledged ((term,vote)={:?}, members={:?}) but a kill right after the acknowledgement lost it: the restarted node reports (term,vote)={:?} members={:?}", when, lost.hs, lost.members, obs_hs, obs_members)));
                    }
                    let r = if j < 0 { Reg::default() } else { self.m.reg_history[j as usize].clone() };
                    self.m.hs = r.hs;
                    self.m.members = r.members.clone();
                    self.m.addrs = r.addrs.clone();
                    self.m.reg_history.truncate((j + 1) as usize);
                    self.m.reg_durable = if j < 0 { None } else { Some(j as usize) };
                }
            }
        }
        if let Some((term, vote)) = self.m.hs {
            let v = st.hard_state.voted_for.unwrap_or(0);
            vensure!(st.hard_state.current_term == term && v == vote, &clause(id, "hard_state"), "{}: hard state (term {}, vote {}) but (term {}, vote {}) was acknowledged", when, st.hard_state.current_term, v, term, vote);
        }
        if let Some((members, after)) = &self.m.members {
            let ms: HashSet<u64> = members.iter().cloned().collect();
            let af: Option<HashSet<u64>> = if after.is_empty() { None } else { Some(after.iter().cloned().collect()) };
            vensure!(st.membership.members == ms && st.membership.members_after_consensus == af, &clause(id, "membership"), "{}: membership {:?} but {:?}/{:?} was acknowledged", when, st.membership, members, after);
            let mc = self.store().get_membership_config().await.map_err(|e| Violation::new(&clause(id, "state_error"), e.to_string()))?;
            vensure!(mc.members == ms && mc.members_after_consensus == af, &clause(id, "membership"), "{}: get_membership_config {:?} but {:?}/{:?} was acknowledged", when, mc, members, after);
        }
        for (nid, addr) in self.m.addrs.clone() {
            match self.store().get_target_addr(nid).await {
                Ok(a) => vensure!(a.as_str() == addr, &clause(id, "node_addr"), "{}: address of node {} is {} but {} was acknowledged", when, nid, a, addr),
                Err(e) => vfail!(&clause(id, "node_addr"), "{}: address of node {} lost ({}), {} was acknowledged", when, nid, e, addr),
            }
        }
        Ok(())
    }

    pub fn model_digest(&self) -> u64 {
        let mut s = String::new();
        for (i, e) in &self.m.entries {
            s.push_str(&format!("{}:{}:{};", i, e.term, e.payload.len()));
        }
        s.push_str(&format!("low{} hs{:?} m{:?}", self.m.low, self.m.hs, self.m.members));
        digest_str(&s)
    }
}

pub fn trunc(s: &str) -> String {
    if s.len() > 80 {
        format!("{}..({}B)", &s[..60], s.len())
    } else {
        s.to_string()
    }
}

/// Execute a Rig-L script: after every step the log and the register are compared with the model.
pub async fn exec_lscript(id: &'static str, script: Value) -> ExecResult {
    let seed = script["seed"].as_u64().unwrap_or(1);
    let cfg: LCfg = serde_json::from_value(script["cfg"].clone()).unwrap_or_default();
    let steps: Vec<LStep> = match serde_json::from_value(script["steps"].clone()) {
        Ok(s) => s,
        Err(e) => {
            return ExecResult {
                violation: Some(Violation::new("harness.script", format!("bad script: {}", e))),
                info: RunInfo::default(),
            }
        }
    };
    tokio::fs::set_cfg(cfg.disk());
    let mut x = LExec::new(id, seed, cfg);
    x.open();
    let mut violation = None;
    for (i, st) in steps.iter().enumerate() {
        sim::event(&format!("step {} {}", i, serde_json::to_string(st).unwrap_or_default().chars().take(100).collect::<String>()));
        let panics_before = panics_so_far();
        // no observation between an acknowledgement and the kill that follows it
        let crash_next = matches!(steps.get(i + 1), Some(LStep::CrashNow))
            && matches!(st, LStep::HardState { .. } | LStep::Member { .. } | LStep::NodeAddr { .. } | LStep::Append { .. } | LStep::Replicate { .. });
        let r = async {
            x.step(st).await?;
            if crash_next {
                // no observation between the acknowledgement and the kill
                return Ok(());
            }
            let reopened = matches!(st, LStep::Reopen | LStep::Crash | LStep::CrashNow);
            let when = format!("after step {} ({})", i, step_name(st));
            x.check_log(&when).await?;
            x.check_state(&when, reopened).await?;
            x.mark_durable();
            Ok::<(), Violation>(())
        }
        .await;
        if let Err(v) = r {
            violation = Some(v);
            break;
        }
        if panics_so_far() > panics_before {
            violation = Some(Violation::new(&clause(id, "actor_panic"), format!("a store task panicked during step {}: {}", i, peek_panics().join(" | "))));
            break;
        }
    }
    let nontrivial = x.reopens > 0 && x.m.entries.len() >= 2;
    let info = RunInfo {
        digest: x.model_digest(),
        nontrivial,
        info: json!({"entries": x.m.entries.len(), "low": x.m.low, "reopens": x.reopens, "failed_ops": x.failed_ops}),
        findings: x.findings.clone(),
    };
    // leave no live handles behind
    if let Some(h) = x.h.take() {
        kill(h, NODE);
    }
    ExecResult { violation, info }
}

pub fn step_name(s: &LStep) -> &'static str {
    match s {
        LStep::Append { .. } => "append",
        LStep::Replicate { .. } => "replicate",
        LStep::DeleteFrom { .. } => "delete_from",
        LStep::HardState { .. } => "hard_state",
        LStep::Member { .. } => "member",
        LStep::NodeAddr { .. } => "node_addr",
        LStep::Compact { .. } => "compact",
        LStep::InstallPointer { .. } => "install_pointer",
        LStep::SaveApplied { .. } => "save_applied",
        LStep::Advance { .. } => "advance",
        LStep::Reopen => "reopen",
        LStep::Crash => "crash",
        LStep::CrashNow => "crash_now",
    }
}

// ---------------------------------------------------------------------------
// generators

/// payload pad that makes the frame of entry (index, term) exactly `want` bytes, if possible
pub fn pad_for_frame(index: u64, term: u64, uniq: u64, want: usize) -> Option<usize> {
    let base = frame_size(index, term, &mk_payload(uniq, 0, 0));
    if want < base {
        return None;
    }
    let mut pad = want - base;
    // the length prefixes grow with the pad; correct iteratively
    for _ in 0..6 {
        let fs = frame_size(index, term, &mk_payload(uniq, pad, 0));
        if fs == want {
            return Some(pad);
        }
        if fs > want {
            if pad == 0 {
                return None;
            }
            pad -= (fs - want).min(pad);
        } else {
            pad += want - fs;
        }
    }
    None
}

pub struct GenShadow {
    /// bytes since the file offset of the last index entry (or the data start)
    pub since_idx: usize,
    pub cnt: u64,
    pub interval: u64,
    pub next: u64,
    pub term: u64,
    pub uniq: u64,
    pub known: bool,
    pub count: u64,
    /// absolute data cursor in the current log file and its pre-allocated length (valid while `known`
    /// and no roll-over happened)
    pub abs: usize,
    pub file_len: usize,
}

impl GenShadow {
    pub fn account(&mut self, fs: usize) {
        if self.file_len <= self.abs + fs {
            self.file_len += std::cmp::max(fs, 1024 * 1024);
        }
        self.abs += fs;
        self.since_idx += fs;
        self.cnt += 1;
        if self.interval > 0 && self.cnt % self.interval == 0 {
            self.since_idx = 0;
        }
        self.next += 1;
        self.count += 1;
    }
}

pub fn gen_pad(rng: &mut Rng, sh: &mut GenShadow, aligned_hits: &mut u64) -> usize {
    sh.uniq += 1;
    let r = rng.below(100);
    let pad = if r < 30 && sh.known {
        // make this record END exactly on (or 1 byte around) a 1024-byte read chunk counted from the last index entry
        let to_boundary = 1024 - (sh.since_idx % 1024);
        let delta = [0i64, 0, 0, -1, 1][rng.below(5) as usize];
        let mut want = to_boundary as i64 + delta;
        if want < 60 {
            want += 1024;
        }
        match pad_for_frame(sh.next, sh.term, sh.uniq, want as usize) {
            Some(p) => {
                if delta == 0 {
                    *aligned_hits += 1;
                }
                p
            }
            None => rng.range(0, 40) as usize,
        }
    } else if r < 45 {
        *rng.pick(&[0usize, 1, 60, 61, 62, 63, 64, 65, 66, 67, 68, 69, 70, 71, 72, 73, 74])
    } else if r < 52 {
        // records around and above the 1024-byte reader buffer
        *rng.pick(&[900usize, 950, 960, 970, 980, 1000, 1024, 1100, 2000, 2047, 2048, 3000])
    } else if r < 55 {
        *rng.pick(&[16200usize, 16300, 16384, 20000, 70000])
    } else {
        rng.range(0, 300) as usize
    };
    let fs = frame_size(sh.next, sh.term, &mk_payload(sh.uniq, pad, 0));
    sh.account(fs);
    pad
}

/// a record that ends exactly at (or one byte around) the pre-allocated end of the log file
pub fn gen_pad_to_file_end(rng: &mut Rng, sh: &mut GenShadow) -> Option<usize> {
    if !sh.known || sh.file_len <= sh.abs + 64 {
        return None;
    }
    let delta = *rng.pick(&[0i64, 0, 0, -1, 1]);
    let want = (sh.file_len - sh.abs) as i64 + delta;
    sh.uniq += 1;
    match pad_for_frame(sh.next, sh.term, sh.uniq, want as usize) {
        Some(p) => {
            let fs = frame_size(sh.next, sh.term, &mk_payload(sh.uniq, p, 0));
            sh.account(fs);
            Some(p)
        }
        None => {
            sh.uniq -= 1;
            None
        }
    }
}

// ---------------------------------------------------------------------------
// C04: crash images. One fault-free execution of a history yields the journal of file
// mutations; every prefix of it is a disk image on which the real recovery is run.

#[derive(Clone)]
pub struct Checkpoint {
    /// journal length (mutations of the node) at a point where everything issued had completed
    pub jlen: usize,
    pub model: LModel,
    pub step: usize,
}

fn node_prefix(root: &str) -> String {
    format!("{}/{}/", root, NODE)
}

pub async fn exec_c04(script: Value) -> ExecResult {
    let id = "C04";
    let seed = script["seed"].as_u64().unwrap_or(1);
    let cfg: LCfg = serde_json::from_value(script["cfg"].clone()).unwrap_or_default();
    let max_images = script["max_images"].as_u64().unwrap_or(150) as usize;
    let steps: Vec<LStep> = match serde_json::from_value(script["steps"].clone()) {
        Ok(s) => s,
        Err(e) => return ExecResult { violation: Some(Violation::new("harness.script", format!("bad script: {}", e))), info: RunInfo::default() },
    };
    tokio::fs::set_cfg(cfg.disk());
    let mut x = LExec::new(id, seed, cfg.clone());
    x.open();
    // the store's own start-up writes belong to the history
    let _ = within(60_000, x.store().get_initial_state()).await;
    settle().await;
    let mut cps: Vec<Checkpoint> = vec![Checkpoint { jlen: 0, model: x.m.clone(), step: 0 }];
    let node_jlen = || tokio::fs::with_disk(|d| d.journal.iter().filter(|e| e.node == NODE).count());
    cps.push(Checkpoint { jlen: node_jlen(), model: x.m.clone(), step: 0 });
    // phase A: the history, fault-free; a checkpoint after every step
    for (i, st) in steps.iter().enumerate() {
        sim::event(&format!("step {} {}", i, serde_json::to_string(st).unwrap_or_default().chars().take(100).collect::<String>()));
        let r = async {
            x.step(st).await?;
            settle().await;
            let when = format!("phase A after step {} ({})", i, step_name(st));
            x.check_log(&when).await?;
            x.check_state(&when, matches!(st, LStep::Reopen)).await?;
            settle().await;
            Ok::<(), Violation>(())
        }
        .await;
        if let Err(v) = r {
            // the fault-free execution itself misbehaves: that is C02/C03/C05's finding, not a crash finding
            let info = RunInfo { digest: 0, nontrivial: false, info: json!({"phase_a_failed": v.clause}), findings: vec![] };
            if let Some(h) = x.h.take() {
                kill(h, NODE);
            }
            return ExecResult { violation: Some(Violation::new(&clause(id, "phase_a"), format!("fault-free execution already violates {}: {}", v.clause, v.msg))), info };
        }
        cps.push(Checkpoint { jlen: node_jlen(), model: x.m.clone(), step: i + 1 });
    }
    if let Some(h) = x.h.take() {
        kill(h, NODE);
    }
    let journal: Vec<tokio::fs::JEntry> = tokio::fs::journal_clone().into_iter().filter(|e| e.node == NODE).collect();
    tokio::fs::with_disk(|d| {
        d.journal_on = false;
        d.journal.clear();
    });
    let total = journal.len();
    // phase B: crash prefixes
    let mut ks: Vec<usize> = vec![];
    if total + 1 <= max_images {
        ks = (0..=total).collect();
    } else {
        use tokio::fs::JOp;
        let mut set = std::collections::BTreeSet::new();
        for (i, e) in journal.iter().enumerate() {
            let structural = match &e.op {
                JOp::Write { off, .. } => *off < 4096,
                JOp::Flush { .. } => false,
                _ => true,
            };
            if structural {
                set.insert(i);
                set.insert(i + 1);
            }
        }
        let mut v: Vec<usize> = set.into_iter().collect();
        let mut rng = Rng::derive(seed, "C04.ks", 0);
        // thin out structural points if there are too many, then fill with random positions
        while v.len() > max_images * 2 / 3 {
            let i = rng.below(v.len() as u64) as usize;
            v.remove(i);
        }
        let mut set: std::collections::BTreeSet<usize> = v.into_iter().collect();
        while set.len() < max_images {
            set.insert(rng.below(total as u64 + 1) as usize);
        }
        set.insert(total);
        ks = set.into_iter().collect();
    }
    let prefix = node_prefix(&x.root);
    let mut violation = None;
    let mut images = 0u64;
    let mut digests = 0u64;
    let mut findings: Vec<Violation> = vec![];
    for k in ks {
        let img = tokio::fs::image_at(&journal, NODE, k);
        digests = digests.wrapping_mul(31).wrapping_add(img.digest());
        // checkpoint bracket
        let mut j = 0;
        for (ci, c) in cps.iter().enumerate() {
            if c.jlen <= k {
                j = ci;
            }
        }
        let prev = &cps[j].model;
        let next = if j + 1 < cps.len() { &cps[j + 1].model } else { &cps[j].model };
        let what = if j + 1 < cps.len() && cps[j + 1].step >= 1 && cps[j + 1].step <= steps.len() {
            format!("crash after {} of {} file mutations, i.e. inside step {} ({})", k, total, cps[j + 1].step - 1, step_name(&steps[cps[j + 1].step - 1]))
        } else {
            format!("crash after {} of {} file mutations (start-up / end)", k, total)
        };
        images += 1;
        sim::count("fault.crash_image", 1);
        sim::event(&format!("image k={} bracket={}", k, j));
        let panics_before = panics_so_far();
        let hist: Vec<LModel> = cps[..(j + 2).min(cps.len())].iter().map(|c| c.model.clone()).collect();
        let r = recover_and_check(&x.root, &prefix, &img, prev, next, &what, &cfg, &hist).await;
        if let Err(v) = r {
            let mut v = v;
            v.msg = format!("[k={}] {}", k, v.msg);
            // root-cause signature: the image's catalogue lists a log file that does not exist (the
            // files are unlinked before the catalogue that drops them is saved)
            if let Some(missing) = catalogue_missing_log_file(&img, &prefix) {
                sim::count("probe.image_catalogue_lists_missing_log", 1);
                if findings.is_empty() {
                    findings.push(Violation::new(&clause(id, "catalogue_out_of_step_with_log_files"), format!("{} - the catalogue on disk lists {}; consequence: {}: {}", what, missing, v.clause, v.msg)));
                }
                continue;
            }
            violation = Some(v);
            break;
        }
        if panics_so_far() > panics_before {
            violation = Some(Violation::new(&clause(id, "actor_panic"), format!("[k={}] {}: a store task panicked during recovery: {}", k, what, peek_panics().join(" | "))));
            break;
        }
    }
    let info = RunInfo {
        digest: digests,
        nontrivial: images >= 10,
        info: json!({"journal": total, "images": images, "checkpoints": cps.len()}),
        findings,
    };
    ExecResult { violation, info }
}

/// Some(description) when the catalogue stored in the image is out of step with the log files of the
/// image: it lists a log file that does not exist, or one whose header carries another first index
/// than the catalogue (the name was re-used for a new file). Files are removed / created by the log
/// manager and its file actors while the catalogue is saved, fire-and-forget, by the index manager.
fn catalogue_missing_log_file(img: &tokio::fs::Image, prefix: &str) -> Option<String> {
    use quick_protobuf::BytesReader;
    use rnacos::raft::filestore::log::RaftIndex;
    let data = img.file(&format!("{}index", prefix))?;
    if data.len() < 10 || data[8] == 0 {
        return None;
    }
    let body = &data[8..];
    let mut r = BytesReader::from_bytes(body);
    let idx: RaftIndex = r.read_message(body).ok()?;
    for l in &idx.logs {
        let name = format!("{}log_{}", prefix, l.id);
        match img.file(&name) {
            None => return Some(format!("log_{} which does not exist (already unlinked)", l.id)),
            Some(f) => {
                if f.len() >= 22 {
                    let mut b = [0u8; 8];
                    b.copy_from_slice(&f[14..22]);
                    let first_index = u64::from_be_bytes(b);
                    if first_index != l.start_index {
                        return Some(format!("log_{} with start index {} but the file of that name is a newer one starting at {}", l.id, l.start_index, first_index));
                    }
                }
            }
        }
    }
    None
}

async fn recover_and_check(root: &str, prefix: &str, img: &tokio::fs::Image, prev: &LModel, next: &LModel, what: &str, cfg: &LCfg, hist: &[LModel]) -> VResult<()> {
    let id = "C04";
    tokio::fs::crash(NODE);
    tokio::fs::install_image(prefix, img);
    rnacos::verif_hook::set_log_knob(cfg.interval, cfg.area);
    let h = open_store(root, NODE);
    // (1) opens
    let st = match within(120_000, h.store.get_initial_state()).await {
        Some(Ok(s)) => s,
        Some(Err(e)) => vfail!(&clause(id, "reopen_failed"), "{}: the store does not reopen: get_initial_state: {}", what, e),
        None => vfail!(&clause(id, "reopen_hang"), "{}: get_initial_state does not answer within 120 simulated s", what),
    };
    let hi = prev.next.max(next.next) + 8;
    let got = match within(120_000, h.store.get_log_entries(0, hi)).await {
        Some(Ok(v)) => v,
        Some(Err(e)) => vfail!(&clause(id, "reopen_failed"), "{}: get_log_entries: {}", what, e),
        None => vfail!(&clause(id, "reopen_hang"), "{}: get_log_entries does not answer", what),
    };
    // (2) contiguous, (3) only submitted entries with their term and payload
    let mut prevq: Option<u64> = None;
    for e in &got {
        if let Some(p) = prevq {
            vensure!(e.index == p + 1, &clause(id, "gap"), "{}: recovered log not contiguous: {} follows {}", what, e.index, p);
        }
        prevq = Some(e.index);
        let pj = payload_json(&e.payload);
        let ok_prev = prev.entries.get(&e.index).map(|m| m.term == e.term && m.payload == pj).unwrap_or(false);
        let ok_next = next.entries.get(&e.index).map(|m| m.term == e.term && m.payload == pj).unwrap_or(false);
        vensure!(ok_prev || ok_next, &clause(id, "foreign_entry"), "{}: recovered entry {} (term {}, {}) matches neither the state before nor after the interrupted step (before: {:?}, after: {:?})", what, e.index, e.term, trunc(&pj), prev.entries.get(&e.index).map(|m| (m.term, trunc(&m.payload))), next.entries.get(&e.index).map(|m| (m.term, trunc(&m.payload))));
    }
    // (4) everything acknowledged and completed before the crash and not touched by the interrupted step
    let low = prev.low.max(next.low);
    let got_idx: HashSet<u64> = got.iter().map(|e| e.index).collect();
    for (i, m) in prev.entries.range(low..) {
        if next.entries.get(i) == Some(m) {
            vensure!(got_idx.contains(i), &clause(id, "lost_entry"), "{}: entry {} was acknowledged and on disk before the interrupted step and is not touched by it, but the recovered log is {:?}..{:?} ({} entries)", what, i, got.first().map(|e| e.index), got.last().map(|e| e.index), got.len());
        }
    }
    // consistency of the two views of the end of the log
    if let Some(last) = got.last() {
        vensure!(st.last_log_index == last.index, &clause(id, "last_index_mismatch"), "{}: get_initial_state reports last_log_index {} but the readable log ends at {}", what, st.last_log_index, last.index);
        vensure!(st.last_log_term == last.term, &clause(id, "last_index_mismatch"), "{}: get_initial_state reports last_log_term {} but entry {} has term {}", what, st.last_log_term, last.index, last.term);
    } else if prev.started && next.started && !prev.entries.is_empty() && !next.entries.is_empty() {
        // nothing readable although both bracketing states have entries
        let any_stable = prev.entries.range(low..).any(|(i, m)| next.entries.get(i) == Some(m));
        vensure!(!any_stable, &clause(id, "lost_entry"), "{}: recovered log is empty", what);
    }
    // (5) register equals a value written before the kill
    let hs = (st.hard_state.current_term, st.hard_state.voted_for.unwrap_or(0));
    // the statement asks for "some value written before the kill" (non-regression of acknowledged values is C05)
    let hs_ok = hist.iter().any(|m| hs == m.hs.unwrap_or((0, 0)));
    vensure!(hs_ok, &clause(id, "hard_state"), "{}: recovered (term,vote) {:?} was never written (values written so far: {:?})", what, hs, hist.iter().map(|m| m.hs).collect::<Vec<_>>());
    let mem_norm = |m: &Option<(Vec<u64>, Vec<u64>)>| -> (Vec<u64>, Vec<u64>) {
        let (mut a, mut b) = m.clone().unwrap_or((vec![], vec![]));
        a.sort();
        b.sort();
        (a, b)
    };
    let mut om: Vec<u64> = st.membership.members.iter().cloned().collect();
    om.sort();
    let mut oa: Vec<u64> = st.membership.members_after_consensus.clone().unwrap_or_default().into_iter().collect();
    oa.sort();
    let obs = (om, oa);
    vensure!(hist.iter().any(|m| obs == mem_norm(&m.members)), &clause(id, "membership"), "{}: recovered membership {:?} was never written (before/after the interrupted step: {:?} / {:?})", what, obs, prev.members, next.members);
    // (6) last applied never beyond what snapshot + log can reproduce
    let snap_idx = match within(60_000, h.store.get_current_snapshot()).await {
        Some(Ok(Some(s))) => s.index,
        Some(Ok(None)) => 0,
        Some(Err(e)) => vfail!(&clause(id, "snapshot_unreadable"), "{}: get_current_snapshot: {}", what, e),
        None => vfail!(&clause(id, "reopen_hang"), "{}: get_current_snapshot does not answer", what),
    };
    // a snapshot completed before the interrupted step is still there (that one, or the one the step was completing)
    // (not while an installation is interrupted: the script may install a snapshot below the current one, which replaces it)
    if let (Some((sid, at)), false) = (prev.snapshots.last(), what.contains("install_pointer")) {
        vensure!(snap_idx >= *at, &clause(id, "snapshot_lost"), "{}: snapshot {} (up to index {}) was complete and catalogued before the interrupted step, but the recovered store has {}", what, sid, at, if snap_idx == 0 { "no current snapshot".to_string() } else { format!("a current snapshot up to index {}", snap_idx) });
    }
    let reach = snap_idx.max(got.last().map(|e| e.index).unwrap_or(0));
    vensure!(st.last_applied_log <= reach, &clause(id, "applied_beyond_log"), "{}: last applied index {} but snapshot ({}) plus log (..{:?}) reproduce at most {}", what, st.last_applied_log, snap_idx, got.last().map(|e| e.index), reach);
    // (7) accepts a further append and a second reopen
    let next_idx = st.last_log_index + 1;
    let probe = Entry { index: next_idx, term: st.last_log_term.max(1), payload: mk_payload(9_000_000 + next_idx, 3, 0) };
    if prev.started || !got.is_empty() {
        match within(120_000, h.store.append_entry_to_log(&probe)).await {
            Some(Ok(())) => {}
            Some(Err(e)) => vfail!(&clause(id, "append_after_recovery"), "{}: append at {} (last_log_index+1) rejected after recovery: {}", what, next_idx, e),
            None => vfail!(&clause(id, "reopen_hang"), "{}: append after recovery does not answer", what),
        }
        settle().await;
        drop(h);
        tokio::fs::crash(NODE);
        let h2 = open_store(root, NODE);
        let got2 = match within(120_000, h2.store.get_log_entries(0, hi + 2)).await {
            Some(Ok(v)) => v,
            other => vfail!(&clause(id, "second_reopen"), "{}: second reopen failed: {:?}", what, other.map(|r| r.map(|v| v.len()).map_err(|e| e.to_string()))),
        };
        let want: Vec<u64> = got.iter().map(|e| e.index).chain(std::iter::once(next_idx)).collect();
        let have: Vec<u64> = got2.iter().map(|e| e.index).collect();
        vensure!(want == have, &clause(id, "second_reopen"), "{}: after recovery + append at {} + clean reopen the log is {:?}..{:?} ({} entries), expected {:?}..{} ({} entries)", what, next_idx, have.first(), have.last(), have.len(), want.first(), next_idx, want.len());
        drop(h2);
    } else {
        drop(h);
    }
    Ok(())
}
