//! Workload steps against real nodes (public routes and actor APIs) and observation helpers.
use crate::core::*;
use crate::rig_n::*;
use rnacos::common::model::privilege::{NamespacePrivilegeGroup, PrivilegeGroup};
use rnacos::config::config_index::ConfigQueryParam;
use rnacos::config::core::{ConfigCmd, ConfigKey, ConfigResult};
use rnacos::config::dal::ConfigHistoryParam;
use rnacos::mcp::model::actor_model::{McpManagerRaftReq, McpManagerReq, McpManagerResult};
use rnacos::mcp::model::mcp::McpServerParam;
use rnacos::mcp::model::tools::{JsonSchema, McpSimpleTool, ToolFunctionValue, ToolKey, ToolRouteRule, ToolSpecParam};
use rnacos::namespace::model::{NamespaceParam, NamespaceQueryReq, NamespaceQueryResult, NamespaceRaftReq};
use rnacos::naming::model::actor_model::{InstanceRegisterParam, NamingRaftReq};
use rnacos::naming::model::InstanceKey;
use rnacos::raft::cluster::model::{DelConfigReq, SetConfigReq};
use rnacos::raft::store::ClientRequest;
use rnacos::sequence::{SequenceRequest, SequenceResult};
use rnacos::user::model::UserDto;
use rnacos::user::{UserManagerReq, UserManagerResult};
use serde::{Deserialize, Serialize};
use std::collections::{BTreeMap, HashMap};
use std::sync::Arc;
use tokio::sim::{self, Rng};

pub const TENANTS: [&str; 3] = ["", "t1", "tenant-two"];
pub const GROUPS: [&str; 2] = ["DEFAULT_GROUP", "g2"];
/// (the last one differs from the second only where that one has a dot: a fuzzy search must not read the dot as a wildcard)
pub const DATA_IDS: [&str; 6] = ["app", "app.yaml", "app.yaml.bak", "db_conf", "x", "app-yaml"];

#[derive(Serialize, Deserialize, Clone, Debug, PartialEq)]
#[serde(tag = "op")]
pub enum WStep {
    /// publish: key = (tenant t, group g, dataId d); content unique per step (uniq counter) padded to `size`
    CfgSet { node: u64, t: u8, g: u8, d: u8, size: u32, same: bool, typ: u8, desc: u8 },
    CfgDel { node: u64, t: u8, g: u8, d: u8 },
    NsSet { node: u64, id: u8, name: u8 },
    NsDel { node: u64, id: u8 },
    UserAdd { node: u64, id: u8 },
    UserUpd { node: u64, id: u8, nick: u8 },
    UserDel { node: u64, id: u8 },
    SeqNext { node: u64, key: u8, n: u8 },
    SeqRange { node: u64, key: u8, len: u8 },
    /// `k` next-id requests sent back to back (all in flight at once, so the node-local double buffer refills with several
    /// range fetches outstanding), a direct range request slipped in after the first `pos` of them, then `then` ids
    /// drawn one after another (enough to use up every range that was fetched). Executed by C19 only.
    SeqBurst { node: u64, key: u8, k: u8, pos: u8, range_len: u8, then: u16 },
    PInstReg { node: u64, svc: u8, ip: u8, weight: u8 },
    PInstDel { node: u64, svc: u8, ip: u8 },
    Advance { ms: u64 },
    /// clean stop + start of a node
    Restart { node: u64 },
    /// kill -9 + start
    KillRestart { node: u64 },
    /// clean stop, then the disk image an interrupted compaction leaves behind (a partial snapshot file under the id the
    /// next compaction will use, unknown to the index), then start; cut = per cent of the newest snapshot's bytes missing
    PlantSnapshot { node: u64, cut: u8 },
    /// one record of a data import (what TransferImportManager::apply_config does): draw a section of history ids from
    /// the config actor, optionally let a publish slip in, then write the full value with its history through raft
    Import { node: u64, t: u8, g: u8, d: u8, inter: bool },
    /// MCP tool definition `k` gets a new version (unique description)
    McpTool { node: u64, k: u8 },
    McpToolDel { node: u64, k: u8 },
    /// MCP server `id` is created (or updated when it exists) with one tool: definition `k` at the version that is current
    /// now (or, `old`, at the version before it - still referenced although the definition has moved on); `publish`: the new
    /// value is released at once (create) / the current value is released afterwards (update)
    McpServer { node: u64, id: u8, k: u8, old: bool, publish: bool },
    McpServerDel { node: u64, id: u8 },
    /// 3 nodes (executed by C19): the leader is cut off while clients keep publishing `during` configurations through it
    /// (it draws history ids for writes that never commit), the others elect a leader and take `after` publishes, the
    /// partition heals; then, if `back` > 0, the second leader is cut off in turn so that another node (often the first
    /// leader) leads again and takes `back` publishes
    LeaderHandover { during: u8, after: u8, back: u8 },
    /// replicated cache (what login sessions and limiter clears use): set string entry `k` with a time to live -
    /// ttl 0: none (-1), 1: an hour, 2: two seconds (expired by the time anything is observed across a restart)
    CacheSet { node: u64, k: u8, ttl: u8 },
    CacheDel { node: u64, k: u8 },
    /// a batch import of `n` MCP tool definitions in one request (UpdateToolSpecList, what an OpenAPI / zip import sends):
    /// the definitions tool0..tool2 in turn, each with a new version
    McpToolList { node: u64, n: u8 },
}

/// namespace ids: two of the four are tenants that configurations are published in, so that user-created namespaces hold
/// data (their flags then combine USER with CONFIG)
pub fn ns_id(id: u8) -> String {
    match id % 4 {
        1 => TENANTS[1].to_string(),
        2 => TENANTS[2].to_string(),
        x => format!("ns{}", x),
    }
}

pub fn mcp_tool_key(k: u8) -> ToolKey {
    ToolKey::new(Arc::new("public".to_string()), Arc::new("grp".to_string()), Arc::new(format!("tool{}", k % 3)))
}

fn strip_ref_counts(v: &mut serde_json::Value) {
    match v {
        serde_json::Value::Object(m) => {
            m.remove("ref_count");
            m.remove("refCount");
            for x in m.values_mut() {
                strip_ref_counts(x);
            }
        }
        serde_json::Value::Array(a) => a.iter_mut().for_each(strip_ref_counts),
        _ => {}
    }
}

/// What a node serves for the MCP servers and tool definitions of the workload: the public queries GetServer (current,
/// released and historic values with the tool definitions they resolve to) and GetToolSpec (every version), as canonical
/// JSON. Reference counters of tool versions are bookkeeping, not served data, and are left out.
pub async fn mcp_obs(n: &NodeH) -> anyhow::Result<Vec<(String, String)>> {
    let mut out = vec![];
    for id in 0..3u64 {
        if let McpManagerResult::ServerInfo(Some(sv)) = n.app.mcp_manager.send(McpManagerReq::GetServer(7000 + id)).await?? {
            let mut v = serde_json::to_value(sv.as_ref())?;
            strip_ref_counts(&mut v);
            out.push((format!("server{}", id), v.to_string()));
        }
    }
    for k in 0..3u8 {
        if let McpManagerResult::ToolSpecInfo(Some(ts)) = n.app.mcp_manager.send(McpManagerReq::GetToolSpec(mcp_tool_key(k))).await?? {
            let mut v = serde_json::to_value(ts.as_ref())?;
            strip_ref_counts(&mut v);
            out.push((format!("tool{}", k), v.to_string()));
        }
    }
    Ok(out)
}

pub fn gen_mcp_step(rng: &mut Rng, nodes: u64) -> WStep {
    let node = rng.range(1, nodes);
    // (a quarter of these steps are replicated-cache operations)
    if rng.chance(0.25) {
        return if rng.chance(0.75) { WStep::CacheSet { node, k: rng.below(4) as u8, ttl: rng.below(3) as u8 } } else { WStep::CacheDel { node, k: rng.below(4) as u8 } };
    }
    let r = rng.below(100);
    if r < 8 {
        WStep::McpToolList { node, n: *rng.pick(&[2u8, 5, 33, 40]) }
    } else if r < 40 {
        WStep::McpTool { node, k: rng.below(2) as u8 }
    } else if r < 85 {
        WStep::McpServer { node, id: rng.below(2) as u8, k: rng.below(2) as u8, old: rng.chance(0.4), publish: rng.chance(0.5) }
    } else if r < 93 {
        WStep::McpServerDel { node, id: rng.below(2) as u8 }
    } else {
        WStep::McpToolDel { node, k: rng.below(2) as u8 }
    }
}

pub fn cfg_key(t: u8, g: u8, d: u8) -> ConfigKey {
    ConfigKey::new(DATA_IDS[d as usize % DATA_IDS.len()], GROUPS[g as usize % GROUPS.len()], TENANTS[t as usize % TENANTS.len()])
}

pub fn key_str(t: u8, g: u8, d: u8) -> String {
    format!("{}|{}|{}", TENANTS[t as usize % TENANTS.len()], GROUPS[g as usize % GROUPS.len()], DATA_IDS[d as usize % DATA_IDS.len()])
}

pub fn content_for(uniq: u64, size: u32) -> String {
    let head = format!("v{}:", uniq);
    let mut s = head.clone();
    // multi-byte UTF-8 in some contents
    let unit = if uniq % 3 == 0 { "é" } else { "x" };
    while s.len() < size as usize {
        s.push_str(unit);
    }
    s
}

#[derive(Clone, Debug, PartialEq)]
pub struct CfgModelEntry {
    pub content: String,
    pub typ: Option<String>,
    pub desc: Option<String>,
    /// contents of the history entries, oldest first (one per publish that changed the content)
    pub history: Vec<String>,
}

#[derive(Clone, Debug, Default)]
pub struct WModel {
    pub cfg: BTreeMap<String, CfgModelEntry>,
    /// history survives removal of the key? (follows the code: remove drops the entry with its history)
    pub ns: BTreeMap<String, String>,
    pub users: BTreeMap<String, String>,
    pub pinst: BTreeMap<(String, String), f32>,
    pub uniq: u64,
    pub last_content: HashMap<String, String>,
    /// versions handed to MCP tool definitions so far (per definition, ascending) and the servers that exist
    pub mcp_tool_versions: BTreeMap<u8, Vec<u64>>,
    pub mcp_servers: std::collections::BTreeSet<u8>,
}

/// (4 = a blank string: the console passes "" straight through when a user clears the field)
pub fn typ_of(t: u8) -> Option<String> {
    match t % 5 {
        0 => None,
        4 => Some(String::new()),
        1 => Some("yaml".to_string()),
        2 => Some("json".to_string()),
        _ => Some("text".to_string()),
    }
}
pub fn desc_of(d: u8) -> Option<String> {
    match d % 4 {
        0 => None,
        3 => Some(String::new()),
        1 => Some("描述 one".to_string()),
        _ => Some("d2".to_string()),
    }
}

pub async fn cfg_get(n: &NodeH, key: ConfigKey) -> anyhow::Result<Option<(String, String, Option<String>, Option<String>)>> {
    match n.app.config_addr.send(ConfigCmd::GET(key)).await?? {
        // (a blank type / description is observed as an absent one: whether "" and None are told apart is left open)
        ConfigResult::Data { value, md5, config_type, desc, .. } => Ok(Some((value.as_ref().clone(), md5.as_ref().clone(), config_type.map(|s| s.as_ref().clone()).filter(|s| !s.is_empty()), desc.map(|s| s.as_ref().clone()).filter(|s| !s.is_empty())))),
        _ => Ok(None),
    }
}

pub async fn cfg_history(n: &NodeH, tgd: (u8, u8, u8), limit: i64, offset: i64) -> anyhow::Result<(usize, Vec<(i64, String)>)> {
    let p = ConfigHistoryParam {
        id: None,
        data_id: Some(DATA_IDS[tgd.2 as usize % DATA_IDS.len()].to_string()),
        group: Some(GROUPS[tgd.1 as usize % GROUPS.len()].to_string()),
        tenant: Some(TENANTS[tgd.0 as usize % TENANTS.len()].to_string()),
        order_by: None,
        order_by_desc: None,
        limit: Some(limit),
        offset: Some(offset),
    };
    match n.app.config_addr.send(ConfigCmd::QueryHistoryPageInfo(Box::new(p))).await?? {
        ConfigResult::ConfigHistoryInfoPage(total, list) => Ok((total, list.into_iter().map(|h| (h.id.unwrap_or(0), h.content.unwrap_or_default())).collect())),
        _ => Ok((0, vec![])),
    }
}

pub async fn cfg_list(n: &NodeH, tenant: Option<&str>, offset: usize, limit: usize) -> anyhow::Result<(usize, Vec<(String, String, String)>)> {
    let p = ConfigQueryParam {
        tenant: tenant.map(|t| Arc::new(t.to_string())),
        group: None,
        data_id: None,
        like_group: None,
        like_data_id: None,
        namespace_privilege: NamespacePrivilegeGroup::new(PrivilegeGroup::all()),
        query_context: false,
        offset,
        limit,
    };
    match n.app.config_addr.send(ConfigCmd::QueryPageInfo(Box::new(p))).await?? {
        ConfigResult::ConfigInfoPage(total, list) => Ok((total, list.into_iter().map(|c| (c.tenant.as_ref().clone(), c.group.as_ref().clone(), c.data_id.as_ref().clone())).collect())),
        _ => Ok((0, vec![])),
    }
}

pub async fn ns_list(n: &NodeH) -> anyhow::Result<Vec<(String, String)>> {
    match n.app.namespace_addr.send(NamespaceQueryReq::List).await?? {
        // name#flags (without the NAMING bit, which follows ephemeral registrations and legitimately changes at a restart)
        NamespaceQueryResult::List(l) => Ok(l.iter().map(|x| (x.namespace_id.as_ref().clone(), format!("{}#{}", x.namespace_name, x.flag & !8))).collect()),
        _ => Ok(vec![]),
    }
}

pub async fn user_list(n: &NodeH) -> anyhow::Result<Vec<(String, String)>> {
    match n.app.user_manager.send(UserManagerReq::QueryPageList { like_username: None, offset: Some(0), limit: Some(1000), is_rev: false }).await?? {
        UserManagerResult::UserPageResult(_, l) => Ok(l.into_iter().map(|u| (u.username.as_ref().clone(), u.nickname.unwrap_or_default())).collect()),
        _ => Ok(vec![]),
    }
}

#[derive(Debug, Clone)]
pub enum OpOutcome {
    Ok,
    Err(String),
    Timeout,
    Ids(Vec<u64>),
}

/// Execute one client-facing step on a node. Returns the outcome as the client sees it.
pub async fn do_step(n: &NodeH, st: &WStep, m: &mut WModel, timeout_ms: u64) -> OpOutcome {
    match st {
        WStep::CfgSet { t, g, d, size, same, typ, desc, .. } => {
            let k = key_str(*t, *g, *d);
            let content = if *same && m.last_content.contains_key(&k) {
                m.last_content.get(&k).cloned().unwrap()
            } else {
                m.uniq += 1;
                content_for(m.uniq, *size)
            };
            let mut req = SetConfigReq::new(cfg_key(*t, *g, *d), Arc::new(content.clone()));
            req.config_type = typ_of(*typ).map(Arc::new);
            req.desc = desc_of(*desc).map(Arc::new);
            req.op_user = Some(Arc::new("sim".to_string()));
            sim::event(&format!("invoke cfgset n{} {} {}", n.id, k, content.chars().take(10).collect::<String>()));
            let r = within(timeout_ms, n.app.config_route.set_config(req)).await;
            let out = match r {
                None => OpOutcome::Timeout,
                Some(Ok(())) => OpOutcome::Ok,
                Some(Err(e)) => OpOutcome::Err(e.to_string()),
            };
            sim::event(&format!("return cfgset n{} {} {:?}", n.id, k, matches!(out, OpOutcome::Ok)));
            if let OpOutcome::Ok = out {
                m.last_content.insert(k.clone(), content.clone());
                let e = m.cfg.entry(k).or_insert(CfgModelEntry { content: String::new(), typ: None, desc: None, history: vec![] });
                let changed = e.history.is_empty() || e.content != content;
                e.content = content.clone();
                // the statement leaves open what a publish without type / description means; the code
                // keeps the previous ones (declared as an assumption in evidence)
                // (a blank one clears it)
                if let Some(t) = typ_of(*typ) {
                    // (a blank type is stored as the default type, ConfigType::new_by_value)
                    e.typ = Some(if t.is_empty() { "text".to_string() } else { t });
                }
                if let Some(d) = desc_of(*desc) {
                    e.desc = Some(d).filter(|s| !s.is_empty());
                }
                if changed {
                    e.history.push(content);
                }
            }
            out
        }
        WStep::CfgDel { t, g, d, .. } => {
            let k = key_str(*t, *g, *d);
            let r = within(timeout_ms, n.app.config_route.del_config(DelConfigReq::new(cfg_key(*t, *g, *d)))).await;
            match r {
                None => OpOutcome::Timeout,
                Some(Ok(())) => {
                    m.cfg.remove(&k);
                    m.last_content.remove(&k);
                    OpOutcome::Ok
                }
                Some(Err(e)) => OpOutcome::Err(e.to_string()),
            }
        }
        WStep::NsSet { id, name, .. } => {
            let nid = ns_id(*id);
            let nm = format!("name{}", name);
            let p = NamespaceParam { namespace_id: Arc::new(nid.clone()), namespace_name: Some(nm.clone()), r#type: Some("2".to_string()) };
            match within(timeout_ms, n.app.raft_request_route.request_namespace(NamespaceRaftReq::Set(p))).await {
                None => OpOutcome::Timeout,
                Some(Ok(_)) => {
                    m.ns.insert(nid, nm);
                    OpOutcome::Ok
                }
                Some(Err(e)) => OpOutcome::Err(e.to_string()),
            }
        }
        WStep::NsDel { id, .. } => {
            let nid = ns_id(*id);
            match within(timeout_ms, n.app.raft_request_route.request_namespace(NamespaceRaftReq::Delete { id: Arc::new(nid.clone()) })).await {
                None => OpOutcome::Timeout,
                Some(Ok(_)) => {
                    m.ns.remove(&nid);
                    OpOutcome::Ok
                }
                Some(Err(e)) => OpOutcome::Err(e.to_string()),
            }
        }
        WStep::UserAdd { id, .. } => {
            let name = format!("user{}", id % 3);
            let user = UserDto {
                username: Arc::new(name.clone()),
                nickname: Some(format!("nick-{}", name)),
                password: Some("pw123456".to_string()),
                enable: Some(true),
                roles: Some(vec![Arc::new("1".to_string())]),
                ..Default::default()
            };
            match within(timeout_ms, n.app.user_manager.send(UserManagerReq::AddUser { user, namespace_privilege_param: None })).await {
                None => OpOutcome::Timeout,
                Some(Ok(Ok(_))) => {
                    m.users.insert(name.clone(), format!("nick-{}", name));
                    OpOutcome::Ok
                }
                Some(Ok(Err(e))) => OpOutcome::Err(e.to_string()),
                Some(Err(e)) => OpOutcome::Err(e.to_string()),
            }
        }
        WStep::UserUpd { id, nick, .. } => {
            let name = format!("user{}", id % 3);
            if !m.users.contains_key(&name) {
                return OpOutcome::Ok;
            }
            let nn = format!("nick{}", nick);
            let user = UserDto { username: Arc::new(name.clone()), nickname: Some(nn.clone()), ..Default::default() };
            match within(timeout_ms, n.app.user_manager.send(UserManagerReq::UpdateUser { user, namespace_privilege_param: None })).await {
                None => OpOutcome::Timeout,
                Some(Ok(Ok(_))) => {
                    m.users.insert(name, nn);
                    OpOutcome::Ok
                }
                Some(Ok(Err(e))) => OpOutcome::Err(e.to_string()),
                Some(Err(e)) => OpOutcome::Err(e.to_string()),
            }
        }
        WStep::UserDel { id, .. } => {
            let name = format!("user{}", id % 3);
            match within(timeout_ms, n.app.user_manager.send(UserManagerReq::Remove { username: Arc::new(name.clone()) })).await {
                None => OpOutcome::Timeout,
                Some(Ok(Ok(_))) => {
                    m.users.remove(&name);
                    OpOutcome::Ok
                }
                Some(Ok(Err(e))) => OpOutcome::Err(e.to_string()),
                Some(Err(e)) => OpOutcome::Err(e.to_string()),
            }
        }
        WStep::SeqNext { key, n: cnt, .. } => {
            let k = Arc::new(format!("seq{}", key % 3));
            let mut ids = vec![];
            for _ in 0..(*cnt).max(1) {
                match within(timeout_ms, n.app.sequence_manager.send(SequenceRequest::GetNextId(k.clone()))).await {
                    Some(Ok(Ok(SequenceResult::NextId(id)))) => ids.push(id),
                    Some(Ok(Ok(_))) => {}
                    Some(Ok(Err(e))) => return OpOutcome::Err(e.to_string()),
                    Some(Err(e)) => return OpOutcome::Err(e.to_string()),
                    None => return OpOutcome::Timeout,
                }
            }
            OpOutcome::Ids(ids)
        }
        WStep::SeqRange { key, len, .. } => {
            let k = Arc::new(format!("seq{}", key % 3));
            match within(timeout_ms, n.app.sequence_manager.send(SequenceRequest::GetDirectRange(k, (*len).max(1) as u64))).await {
                Some(Ok(Ok(SequenceResult::Range(mut r)))) => {
                    let mut ids = vec![];
                    while let Some(id) = r.next_id() {
                        ids.push(id);
                        if ids.len() > 10_000 {
                            break;
                        }
                    }
                    OpOutcome::Ids(ids)
                }
                Some(Ok(Ok(_))) => OpOutcome::Ok,
                Some(Ok(Err(e))) => OpOutcome::Err(e.to_string()),
                Some(Err(e)) => OpOutcome::Err(e.to_string()),
                None => OpOutcome::Timeout,
            }
        }
        WStep::SeqBurst { .. } => OpOutcome::Err("SeqBurst is executed by the C19 executor".to_string()),
        WStep::Import { t, g, d, inter, .. } => {
            use rnacos::config::model::{ConfigHistoryItemDO, ConfigValueDO};
            let (start, end) = match within(timeout_ms, n.app.config_addr.send(ConfigCmd::GetSequenceSection(100))).await {
                Some(Ok(Ok(ConfigResult::SequenceSection { start, end }))) => (start, end),
                _ => return OpOutcome::Err("no sequence section".to_string()),
            };
            if *inter {
                // a client publish arrives while the import is under way
                m.uniq += 1;
                let c = format!("v{}:slip", m.uniq);
                let req = SetConfigReq::new(cfg_key(*t, *g, (*d + 1) % 5), Arc::new(c));
                let _ = within(timeout_ms, n.app.config_route.set_config(req)).await;
            }
            m.uniq += 1;
            let content = format!("v{}:imported", m.uniq);
            let vdo = ConfigValueDO {
                content: Some(content.clone()),
                histories: vec![ConfigHistoryItemDO { id: Some(start), content: Some(format!("v{}:imported-old", m.uniq)), last_time: Some(1_700_000_000_000), op_user: None }, ConfigHistoryItemDO { id: Some(start + 1), content: Some(content.clone()), last_time: Some(1_700_000_001_000), op_user: None }],
                config_type: None,
                desc: None,
            };
            let value = match vdo.to_bytes() {
                Ok(v) => v,
                Err(e) => return OpOutcome::Err(e.to_string()),
            };
            let req = ClientRequest::ConfigFullValue { key: cfg_key(*t, *g, *d).build_key().into_bytes(), value, last_seq_id: Some(end) };
            sim::count("probe.import_record", 1);
            match within(timeout_ms, n.app.raft_request_route.request(req)).await {
                Some(Ok(_)) => OpOutcome::Ok,
                Some(Err(e)) => OpOutcome::Err(e.to_string()),
                None => OpOutcome::Timeout,
            }
        }
        WStep::PInstReg { svc, ip, weight, .. } => {
            let service = format!("psvc{}", svc % 2);
            let ipx = format!("10.9.0.{}", ip % 4);
            let w = 1.0 + (*weight % 5) as f32;
            let param = InstanceRegisterParam {
                ip: Arc::new(ipx.clone()),
                port: 8080,
                weight: w,
                enabled: true,
                healthy: true,
                ephemeral: false,
                metadata: Arc::new(HashMap::new()),
                namespace_id: Arc::new("public".to_string()),
                group_name: Arc::new("DEFAULT_GROUP".to_string()),
                service_name: Arc::new(service.clone()),
                cluster_name: None,
                app_name: None,
                last_modified_millis: rnacos::now_millis_i64(),
            };
            match within(timeout_ms, n.app.raft_request_route.request(ClientRequest::NamingReq { req: NamingRaftReq::RegisterInstance { param } })).await {
                None => OpOutcome::Timeout,
                Some(Ok(_)) => {
                    m.pinst.insert((service, ipx), w);
                    OpOutcome::Ok
                }
                Some(Err(e)) => OpOutcome::Err(e.to_string()),
            }
        }
        WStep::PInstDel { svc, ip, .. } => {
            let service = format!("psvc{}", svc % 2);
            let ipx = format!("10.9.0.{}", ip % 4);
            let key = InstanceKey { namespace_id: Arc::new("public".to_string()), group_name: Arc::new("DEFAULT_GROUP".to_string()), service_name: Arc::new(service.clone()), ip: Arc::new(ipx.clone()), port: 8080 };
            match within(timeout_ms, n.app.raft_request_route.request(ClientRequest::NamingReq { req: NamingRaftReq::RemoveInstance(key) })).await {
                None => OpOutcome::Timeout,
                Some(Ok(_)) => {
                    m.pinst.remove(&(service, ipx));
                    OpOutcome::Ok
                }
                Some(Err(e)) => OpOutcome::Err(e.to_string()),
            }
        }
        WStep::Advance { ms } => {
            advance(*ms).await;
            OpOutcome::Ok
        }
        WStep::CacheSet { k, ttl, .. } => {
            use rnacos::cache::actor_model::{CacheManagerRaftReq, CacheSetParam};
            use rnacos::cache::model::{CacheKey, CacheType, CacheValue};
            m.uniq += 1;
            let mut p = CacheSetParam::new(CacheKey::new(CacheType::String, Arc::new(format!("ck{}", k % 4))), CacheValue::String(Arc::new(format!("cv{}", m.uniq))));
            p.ttl = match ttl % 3 {
                0 => -1,
                1 => 3600,
                _ => 2,
            };
            p.now = rnacos::now_second_i32();
            sim::count("probe.cache_op", 1);
            let short = *ttl % 3 == 2;
            let r = match within(timeout_ms, n.app.raft_request_route.request(ClientRequest::CacheReq { req: CacheManagerRaftReq::Set(p) })).await {
                None => OpOutcome::Timeout,
                Some(Ok(_)) => OpOutcome::Ok,
                Some(Err(e)) => OpOutcome::Err(e.to_string()),
            };
            if short {
                // (a short-lived entry has expired before anything is observed: time passes between two observations)
                advance(3_000).await;
            }
            r
        }
        WStep::CacheDel { k, .. } => {
            use rnacos::cache::actor_model::CacheManagerRaftReq;
            use rnacos::cache::model::{CacheKey, CacheType};
            sim::count("probe.cache_op", 1);
            match within(timeout_ms, n.app.raft_request_route.request(ClientRequest::CacheReq { req: CacheManagerRaftReq::Remove(CacheKey::new(CacheType::String, Arc::new(format!("ck{}", k % 4)))) })).await {
                None => OpOutcome::Timeout,
                Some(Ok(_)) => OpOutcome::Ok,
                Some(Err(e)) => OpOutcome::Err(e.to_string()),
            }
        }
        WStep::McpToolList { n: cnt, .. } => {
            let mut list = vec![];
            let mut vers: Vec<(u8, u64)> = vec![];
            for j in 0..*cnt {
                m.uniq += 1;
                let version = m.uniq;
                let k = j % 3;
                let key = mcp_tool_key(k);
                list.push(ToolSpecParam { namespace: key.namespace, group: key.group, tool_name: key.tool_name, parameters: ToolFunctionValue { name: Arc::new(format!("tool{}", k)), description: Arc::new(format!("definition v{} (list)", version)), input_schema: Box::new(JsonSchema::new_object()) }, version, update_time: 1_700_000_000_000 + version as i64, op_user: Some(Arc::new("sim".to_string())) });
                vers.push((k, version));
            }
            sim::count("probe.mcp_op", 1);
            if *cnt > 32 {
                sim::count("probe.mcp_tool_list_longer_than_32", 1);
            }
            match within(timeout_ms, n.app.raft_request_route.request(ClientRequest::McpReq { req: McpManagerRaftReq::UpdateToolSpecList(list) })).await {
                None => OpOutcome::Timeout,
                Some(Ok(_)) => {
                    for (k, v) in vers {
                        m.mcp_tool_versions.entry(k).or_default().push(v);
                    }
                    OpOutcome::Ok
                }
                Some(Err(e)) => OpOutcome::Err(e.to_string()),
            }
        }
        WStep::McpTool { k, .. } => {
            m.uniq += 1;
            let version = m.uniq;
            let key = mcp_tool_key(*k);
            let p = ToolSpecParam { namespace: key.namespace, group: key.group, tool_name: key.tool_name, parameters: ToolFunctionValue { name: Arc::new(format!("tool{}", k % 3)), description: Arc::new(format!("definition v{}", version)), input_schema: Box::new(JsonSchema::new_object()) }, version, update_time: 1_700_000_000_000 + version as i64, op_user: Some(Arc::new("sim".to_string())) };
            sim::count("probe.mcp_op", 1);
            match within(timeout_ms, n.app.raft_request_route.request(ClientRequest::McpReq { req: McpManagerRaftReq::UpdateToolSpec(p) })).await {
                None => OpOutcome::Timeout,
                Some(Ok(_)) => {
                    m.mcp_tool_versions.entry(*k % 3).or_default().push(version);
                    OpOutcome::Ok
                }
                Some(Err(e)) => OpOutcome::Err(e.to_string()),
            }
        }
        WStep::McpToolDel { k, .. } => {
            sim::count("probe.mcp_op", 1);
            match within(timeout_ms, n.app.raft_request_route.request(ClientRequest::McpReq { req: McpManagerRaftReq::RemoveToolSpec(mcp_tool_key(*k)) })).await {
                None => OpOutcome::Timeout,
                Some(Ok(_)) => {
                    m.mcp_tool_versions.remove(&(*k % 3));
                    OpOutcome::Ok
                }
                // (refused - "tool spec is used" - while a server still refers to the definition)
                Some(Err(_)) => OpOutcome::Ok,
            }
        }
        WStep::McpServer { id, k, old, publish, .. } => {
            // a server refers to a version the node still holds: the current one or (`old`) the oldest retained one (a
            // version stays as long as a server value refers to it)
            let vs: Vec<u64> = match n.app.mcp_manager.send(McpManagerReq::GetToolSpec(mcp_tool_key(*k))).await {
                Ok(Ok(McpManagerResult::ToolSpecInfo(Some(ts)))) => ts.versions.keys().cloned().collect(),
                _ => vec![],
            };
            let tool_version = match vs.len() {
                0 => return OpOutcome::Ok,
                l => if *old { vs[0] } else { vs[l - 1] },
            };
            if *old && vs.len() > 1 {
                sim::count("probe.mcp_server_refers_to_older_tool_version", 1);
            }
            m.uniq += 2;
            let sid = 7000 + (*id % 3) as u64;
            let exists = m.mcp_servers.contains(&(*id % 3));
            let p = McpServerParam {
                id: sid,
                // (the console checks the key for uniqueness on create only: an update may give a server the key of another one)
                unique_key: Some(Arc::new(if exists { format!("srv-key-{}", k % 3) } else { format!("srv-key-{}", id % 3) })),
                value_id: m.uniq * 10,
                tools: vec![McpSimpleTool { tool_name: Arc::new(format!("tool{}", k % 3)), tool_key: mcp_tool_key(*k), tool_version, route_rule: ToolRouteRule::default() }],
                op_user: Arc::new("sim".to_string()),
                update_time: 1_700_000_000_000 + m.uniq as i64,
                namespace: Some(Arc::new("public".to_string())),
                name: Some(Arc::new(format!("server{}", id % 3))),
                description: Some(Arc::new(format!("srv v{}", m.uniq))),
                token: None,
                auth_keys: Some(vec![Arc::new(format!("k{}", m.uniq))]),
                publish_value_id: if *publish && !exists { Some(m.uniq * 10 + 1) } else { None },
            };
            sim::count("probe.mcp_op", 1);
            let req = if exists { McpManagerRaftReq::UpdateServer(p) } else { McpManagerRaftReq::AddServer(p) };
            let r = match within(timeout_ms, n.app.raft_request_route.request(ClientRequest::McpReq { req })).await {
                None => return OpOutcome::Timeout,
                Some(Ok(_)) => {
                    m.mcp_servers.insert(*id % 3);
                    OpOutcome::Ok
                }
                Some(Err(e)) => OpOutcome::Err(e.to_string()),
            };
            if exists && *publish {
                let _ = within(timeout_ms, n.app.raft_request_route.request(ClientRequest::McpReq { req: McpManagerRaftReq::PublishCurrentServer(sid, m.uniq * 10 + 1) })).await;
            }
            r
        }
        WStep::McpServerDel { id, .. } => {
            sim::count("probe.mcp_op", 1);
            match within(timeout_ms, n.app.raft_request_route.request(ClientRequest::McpReq { req: McpManagerRaftReq::RemoveServer(7000 + (*id % 3) as u64) })).await {
                None => OpOutcome::Timeout,
                Some(Ok(_)) => {
                    m.mcp_servers.remove(&(*id % 3));
                    OpOutcome::Ok
                }
                Some(Err(e)) => OpOutcome::Err(e.to_string()),
            }
        }
        WStep::Restart { .. } | WStep::KillRestart { .. } | WStep::PlantSnapshot { .. } | WStep::LeaderHandover { .. } => OpOutcome::Ok,
    }
}

pub fn step_node(st: &WStep) -> u64 {
    match st {
        WStep::CfgSet { node, .. } | WStep::CfgDel { node, .. } | WStep::NsSet { node, .. } | WStep::NsDel { node, .. } | WStep::UserAdd { node, .. } | WStep::UserUpd { node, .. } | WStep::UserDel { node, .. } | WStep::SeqNext { node, .. } | WStep::SeqRange { node, .. } | WStep::SeqBurst { node, .. } | WStep::PInstReg { node, .. } | WStep::PInstDel { node, .. } | WStep::Restart { node } | WStep::KillRestart { node } | WStep::Import { node, .. } | WStep::PlantSnapshot { node, .. } | WStep::McpTool { node, .. } | WStep::McpToolDel { node, .. } | WStep::McpServer { node, .. } | WStep::McpServerDel { node, .. } | WStep::CacheSet { node, .. } | WStep::CacheDel { node, .. } | WStep::McpToolList { node, .. } => *node,
        WStep::Advance { .. } | WStep::LeaderHandover { .. } => 0,
    }
}
