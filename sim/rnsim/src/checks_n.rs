//! Checks on Rig-N (complete nodes): C01 ...
use crate::core::*;
use crate::rig_n::*;
use crate::wl::*;
use crate::{vensure, vfail};
use serde::{Deserialize, Serialize};
use async_raft_ext::RaftStorage;
use serde_json::{json, Value};
use std::collections::BTreeMap;
use std::sync::Arc;
use tokio::sim::{self, Rng};

#[derive(Serialize, Deserialize, Clone, Debug, Default)]
pub struct NCfg {
    pub node: NodeCfg,
    pub net: NetCfg,
    pub disk_p_delay: f64,
    pub disk_max_delay_us: u64,
    pub nodes: u64,
}

pub fn disk_cfg(c: &NCfg) -> tokio::fs::DiskCfg {
    tokio::fs::DiskCfg { p_delay: c.disk_p_delay, max_delay_us: c.disk_max_delay_us, ..Default::default() }
}

/// Full observation of one node: replicated-state records + public queries.
#[derive(Clone, Debug, PartialEq)]
pub struct Obs {
    pub records: Vec<(String, Vec<u8>, Vec<u8>)>,
    pub cfg: BTreeMap<String, Option<(String, String, Option<String>, Option<String>)>>,
    pub hist: BTreeMap<String, Vec<(i64, String)>>,
    pub ns: Vec<(String, String)>,
    pub users: Vec<(String, String)>,
    pub listing: Vec<(String, String, String)>,
}

pub async fn observe(n: &NodeH, tag: &str) -> anyhow::Result<Obs> {
    let records = snapshot_records(n, tag).await?;
    let mut cfg = BTreeMap::new();
    let mut hist = BTreeMap::new();
    for t in 0..TENANTS.len() as u8 {
        for g in 0..GROUPS.len() as u8 {
            for d in 0..DATA_IDS.len() as u8 {
                let k = key_str(t, g, d);
                let v = cfg_get(n, cfg_key(t, g, d)).await?;
                if v.is_some() {
                    let (_, h) = cfg_history(n, (t, g, d), 200, 0).await?;
                    hist.insert(k.clone(), h);
                }
                cfg.insert(k, v);
            }
        }
    }
    let mut ns = ns_list(n).await?;
    ns.sort();
    let mut users = user_list(n).await?;
    users.sort();
    let (_, mut listing) = cfg_list(n, None, 0, 10_000).await?;
    listing.sort();
    Ok(Obs { records, cfg, hist, ns, users, listing })
}

pub fn obs_diff(a: &Obs, b: &Obs) -> String {
    let mut out = vec![];
    if a.records != b.records {
        out.push(format!("state records: {}", records_diff(&a.records, &b.records)));
    }
    for (k, v) in &a.cfg {
        if b.cfg.get(k) != Some(v) {
            out.push(format!("config {}: {:?} vs {:?}", k, v.as_ref().map(|x| (trunc(&x.0), &x.1, &x.2, &x.3)), b.cfg.get(k).and_then(|x| x.as_ref()).map(|x| (trunc(&x.0), &x.1, &x.2, &x.3))));
        }
    }
    for (k, v) in &a.hist {
        if b.hist.get(k) != Some(v) {
            out.push(format!("history {}: {:?} vs {:?}", k, v.iter().map(|x| (x.0, trunc(&x.1))).collect::<Vec<_>>(), b.hist.get(k).map(|h| h.iter().map(|x| (x.0, trunc(&x.1))).collect::<Vec<_>>())));
        }
    }
    if a.ns != b.ns {
        out.push(format!("namespaces {:?} vs {:?}", a.ns, b.ns));
    }
    if a.users != b.users {
        out.push(format!("users {:?} vs {:?}", a.users, b.users));
    }
    if a.listing != b.listing {
        out.push(format!("listing {:?} vs {:?}", a.listing, b.listing));
    }
    out.truncate(5);
    out.join(" || ")
}

fn trunc(s: &str) -> String {
    if s.chars().count() > 24 {
        format!("{}..({}B)", s.chars().take(16).collect::<String>(), s.len())
    } else {
        s.to_string()
    }
}

pub fn obs_digest(o: &Obs) -> u64 {
    let mut h = records_digest(&o.records);
    h ^= digest_str(&format!("{:?}{:?}{:?}", o.cfg, o.ns, o.users));
    h
}

/// the config part of an observation against the reference model
pub fn check_cfg_model(id: &str, o: &Obs, m: &WModel, when: &str) -> VResult<()> {
    check_cfg_model_opt(id, o, m, when, false)
}

/// `dups_tolerated`: a recorded finding (replay of entries already contained in the snapshot) has put
/// duplicate entries into a history earlier in this run; compare the history without duplicates
pub fn check_cfg_model_opt(id: &str, o: &Obs, m: &WModel, when: &str, dups_tolerated: bool) -> VResult<()> {
    for t in 0..TENANTS.len() as u8 {
        for g in 0..GROUPS.len() as u8 {
            for d in 0..DATA_IDS.len() as u8 {
                let k = key_str(t, g, d);
                let got = o.cfg.get(&k).cloned().flatten();
                match (m.cfg.get(&k), got) {
                    (None, None) => {}
                    (None, Some(g)) => vfail!(&format!("{}.deleted_reappears", id), "{}: key {} is served ({}) but was removed / never written", when, k, trunc(&g.0)),
                    (Some(e), None) => vfail!(&format!("{}.missing", id), "{}: key {} acknowledged with content {} is not served", when, k, trunc(&e.content)),
                    (Some(e), Some(g)) => {
                        vensure!(g.0 == e.content, &format!("{}.content", id), "{}: key {} serves {} but the last acknowledged publish was {}", when, k, trunc(&g.0), trunc(&e.content));
                        let md5 = format!("{:x}", md5::compute(e.content.as_bytes()));
                        vensure!(g.1 == md5, &format!("{}.md5", id), "{}: key {} md5 {} but md5(content) is {}", when, k, g.1, md5);
                        vensure!(g.2 == e.typ && g.3 == e.desc, &format!("{}.type_desc", id), "{}: key {} type/desc {:?}/{:?} but {:?}/{:?} was published", when, k, g.2, g.3, e.typ, e.desc);
                        let h = o.hist.get(&k).cloned().unwrap_or_default();
                        // newest first, one per content change, bounded to the last 100
                        let mut want: Vec<String> = e.history.clone();
                        want.reverse();
                        want.truncate(100);
                        let mut have: Vec<String> = h.iter().map(|x| x.1.clone()).collect();
                        if dups_tolerated {
                            let mut seen = std::collections::HashSet::new();
                            have.retain(|c| seen.insert(c.clone()));
                        }
                        vensure!(have == want, &format!("{}.history", id), "{}: key {} history (newest first) {:?} but expected {:?}", when, k, have.iter().map(|s| trunc(s)).collect::<Vec<_>>(), want.iter().map(|s| trunc(s)).collect::<Vec<_>>());
                        let mut ids: Vec<i64> = h.iter().map(|x| x.0).collect();
                        let sorted_desc = dups_tolerated || ids.windows(2).all(|w| w[0] > w[1]);
                        vensure!(sorted_desc, &format!("{}.history_ids", id), "{}: key {} history ids not strictly decreasing (newest first): {:?}", when, k, ids);
                        ids.clear();
                    }
                }
            }
        }
    }
    let ns: BTreeMap<String, String> = o.ns.iter().cloned().collect();
    for (k, v) in &m.ns {
        vensure!(ns.get(k) == Some(v), &format!("{}.namespace", id), "{}: namespace {} should be {:?} but the node lists {:?}", when, k, v, ns.get(k));
    }
    for (k, _) in &ns {
        if k.starts_with("ns") {
            vensure!(m.ns.contains_key(k), &format!("{}.namespace", id), "{}: namespace {} is listed but was deleted", when, k);
        }
    }
    let users: BTreeMap<String, String> = o.users.iter().cloned().collect();
    for (k, v) in &m.users {
        vensure!(users.get(k) == Some(v), &format!("{}.user", id), "{}: user {} should have nickname {:?} but the node lists {:?}", when, k, v, users.get(k));
    }
    for (k, _) in &users {
        if k.starts_with("user") {
            vensure!(m.users.contains_key(k), &format!("{}.user", id), "{}: user {} is listed but was removed", when, k);
        }
    }
    Ok(())
}

pub async fn wait_applied(n: &NodeH, index: u64, ms: u64) -> bool {
    let deadline = tokio::time::Instant::now() + std::time::Duration::from_millis(ms);
    loop {
        let m = metrics(n);
        if m.last_applied >= index && m.current_leader.is_some() {
            return true;
        }
        if tokio::time::Instant::now() >= deadline {
            return false;
        }
        tokio::time::sleep(std::time::Duration::from_millis(100)).await;
    }
}

// ---------------------------------------------------------------------------
// C01: served state survives restart (single complete node)

pub struct C01;

pub async fn exec_c01(script: Value) -> ExecResult {
    let id = "C01";
    let seed = script["seed"].as_u64().unwrap_or(1);
    let cfg: NCfg = serde_json::from_value(script["cfg"].clone()).unwrap_or_default();
    let steps: Vec<WStep> = match serde_json::from_value(script["steps"].clone()) {
        Ok(s) => s,
        Err(e) => return ExecResult { violation: Some(Violation::new("harness.script", e.to_string())), info: RunInfo::default() },
    };
    tokio::fs::set_cfg(disk_cfg(&cfg));
    tokio::fs::with_disk(|d| {
        d.journal_on = false;
        d.log_ops = false;
    });
    net_reset(seed, cfg.net.clone());
    let root = run_root(seed);
    let mut restarts = 0u64;
    let mut digest = 0u64;
    let mut findings: Vec<Violation> = vec![];
    let r: VResult<()> = async {
        let mut n = start_node(&root, 1, true, None, &cfg.node).await.map_err(|e| Violation::new("harness.start", e.to_string()))?;
        vensure!(wait_leader(&n, 20_000).await.is_some(), &format!("{}.no_leader", id), "single node did not become leader within 20 simulated s");
        // let the node's own one-time writes finish (auto-init entries, default admin user after ~10.5 s,
        // namespace sync marker after 5 s): they are not part of the workload
        advance(16_000).await;
        let mut m = WModel::default();
        for (i, st) in steps.iter().enumerate() {
            sim::event(&format!("step {} {}", i, serde_json::to_string(st).unwrap_or_default()));
            match st {
                WStep::Restart { .. } | WStep::KillRestart { .. } => {
                    settle().await;
                    let when = format!("step {} (restart #{})", i, restarts + 1);
                    let before = observe(&n, "pre").await.map_err(|e| Violation::new(&format!("{}.observe_failed", id), format!("{} before stop: {}", when, e)))?;
                    check_cfg_model_opt(id, &before, &m, &format!("{} before the stop", when), !findings.is_empty())?;
                    let last_log = metrics(&n).last_log_index;
                    let compactions = match n.app.raft_store.get_current_snapshot().await { Ok(Some(s)) => s.index, _ => 0 };
                    if compactions > 0 {
                        sim::count("probe.restart_with_snapshot", 1);
                        if compactions == last_log {
                            sim::count("probe.restart_right_after_compaction", 1);
                        } else {
                            sim::count("probe.restart_snapshot_plus_suffix", 1);
                        }
                    }
                    stop_node(1).await;
                    restarts += 1;
                    n = start_node(&root, 1, true, None, &cfg.node).await.map_err(|e| Violation::new(&format!("{}.restart_failed", id), format!("{}: node does not start: {}", when, e)))?;
                    // every incarnation outlives its own one-time start-up timers (default-admin check at
                    // +10.5 s, namespace sync at +5 s): a killed incarnation's actors cannot be destroyed inside
                    // the shared runtime, and its timers firing later would act on stale state
                    if std::env::var("RNSIM_DEBUG").is_ok() {
                        for i in 0..13 {
                            advance(1_000).await;
                            if let Ok(recs) = snapshot_records(&n, "dbg").await {
                                let adm = recs.iter().find(|r| r.0 == "T_USER" && r.1 == b"admin").map(|r| sim::fnv64(&r.2));
                                eprintln!("dbg restart#{} +{}s records={} admin={:x?} leader={:?} applied={}", restarts, i + 1, recs.len(), adm, metrics(&n).current_leader, metrics(&n).last_applied);
                            }
                        }
                    } else {
                        advance(12_000).await;
                    }
                    vensure!(wait_applied(&n, last_log, 40_000).await, &format!("{}.not_caught_up", id), "{}: 40 simulated s after the restart the node has applied {} of {} log entries (leader {:?})", when, metrics(&n).last_applied, last_log, metrics(&n).current_leader);
                    advance(200).await;
                    // the start-up load (snapshot + log suffix) runs asynchronously; the statement does not
                    // bound how long it may take, so poll for up to 60 simulated seconds
                    let mut after = observe(&n, "post").await.map_err(|e| Violation::new(&format!("{}.observe_failed", id), format!("{} after restart: {}", when, e)))?;
                    let mut waited = 0;
                    while before != after && waited < 60 {
                        if waited == 0 {
                            sim::count("probe.observed_partial_state_during_startup_load", 1);
                        }
                        advance(1000).await;
                        waited += 1;
                        after = observe(&n, "post").await.map_err(|e| Violation::new(&format!("{}.observe_failed", id), format!("{} after restart: {}", when, e)))?;
                    }
                    // root-cause signatures of two recorded defects (see known_findings.jsonl); anything else is a violation
                    let (b2, a2, admin_changed) = strip_admin(&before, &after);
                    let replay_sig = b2 != a2 && only_sequences_advanced(&b2, &a2);
                    if before != after && (b2 == a2 || replay_sig) {
                        if admin_changed {
                            sim::count("probe.default_admin_recreated_during_startup_load", 1);
                            if !findings.iter().any(|f| f.clause.ends_with("default_admin_recreated_during_startup_load")) {
                                findings.push(Violation::new(&format!("{}.default_admin_recreated_during_startup_load", id), format!("{}: the stored admin user (password hash, timestamps) differs after the restart: 0.5 s after start the node, already leader, found the user table still empty because the start-up load had not finished, and created the default admin again: {}", when, records_diff(&before.records, &after.records))));
                            }
                        }
                        if replay_sig {
                            sim::count("probe.replay_applies_entries_already_in_snapshot", 1);
                            if !findings.iter().any(|f| f.clause.ends_with("replay_applies_entries_already_in_snapshot")) {
                                findings.push(Violation::new(&format!("{}.replay_applies_entries_already_in_snapshot", id), format!("{}: entries newer than the snapshot header index were already contained in the snapshot and are applied again by the start-up replay: a sequence counter is larger and/or change-history entries appear twice after the restart: {}", when, obs_diff(&b2, &a2))));
                            }
                        }
                    } else if before != after {
                        let files = tokio::fs::list_files(&format!("{}/n1/", root));
                        let mut dbg = format!("files {:?}", files.iter().map(|(n, l)| (n.rsplit('/').next().unwrap_or("").to_string(), *l)).collect::<Vec<_>>());
                        for (name, _) in &files {
                            if name.contains("snapshot_") {
                                if let Some(data) = tokio::fs::read_file_raw(name) {
                                    // manual frame walk
                                    let mut pos = 0usize;
                                    let mut cnt = 0;
                                    while pos < data.len() {
                                        let mut l = 0usize;
                                        let mut sh = 0;
                                        let mut p = pos;
                                        loop {
                                            if p >= data.len() { break; }
                                            let b = data[p];
                                            l |= ((b & 0x7f) as usize) << sh;
                                            sh += 7;
                                            p += 1;
                                            if b & 0x80 == 0 { break; }
                                        }
                                        if l == 0 { break; }
                                        pos = p + l;
                                        cnt += 1;
                                    }
                                    dbg.push_str(&format!(" | {} frames={} end={} len={}", name.rsplit('/').next().unwrap_or(""), cnt, pos, data.len()));
                                }
                            }
                        }
                        vfail!(&format!("{}.differs_after_restart", id), "{}: what the node served before the stop differs from what it serves after the restart: {} [[{}]]", when, obs_diff(&before, &after), dbg);
                    }
                    digest = digest.wrapping_mul(31).wrapping_add(obs_digest(&after));
                }
                _ => {
                    let out = do_step(&n, st, &mut m, 30_000).await;
                    match (&out, st) {
                        (OpOutcome::Timeout, _) => vfail!(&format!("{}.op_hang", id), "step {} {:?} did not answer within 30 simulated s on a fault-free single node", i, st),
                        (OpOutcome::Err(e), WStep::UserAdd { .. }) | (OpOutcome::Err(e), WStep::UserUpd { .. }) | (OpOutcome::Err(e), WStep::UserDel { .. }) => {
                            sim::event(&format!("user op refused: {}", e));
                        }
                        (OpOutcome::Err(e), _) => vfail!(&format!("{}.op_failed", id), "step {} {:?} failed on a fault-free single node: {}", i, st, e),
                        _ => {}
                    }
                }
            }
        }
        Ok(())
    }
    .await;
    let info = RunInfo { digest, nontrivial: restarts > 0 && steps.len() >= 5, info: json!({"restarts": restarts}), findings };
    for n in live_nodes() {
        kill_node(n.id).await;
    }
    ExecResult { violation: r.err(), info }
}

/// Root-cause signature of "the snapshot content is newer than its header index, so the start-up
/// replay applies entries that the snapshot already contains": the two observations are equal except
/// that (a) sequence counters are larger afterwards and/or (b) the change history of a key contains
/// the same (id, content) entries again (the set of entries is unchanged, the old list is a
/// subsequence of the new one). Current contents, md5, type, description, namespaces, users and
/// listings must be identical.
pub fn only_sequences_advanced(before: &Obs, after: &Obs) -> bool {
    if before.cfg != after.cfg || before.ns != after.ns || before.users != after.users || before.listing != after.listing {
        return false;
    }
    let mut something = false;
    // histories: same set, old is a subsequence of new
    if before.hist.len() != after.hist.len() {
        return false;
    }
    for (k, hb) in &before.hist {
        let ha = match after.hist.get(k) {
            Some(h) => h,
            None => return false,
        };
        if ha == hb {
            continue;
        }
        let sb: std::collections::BTreeSet<&(i64, String)> = hb.iter().collect();
        let sa: std::collections::BTreeSet<&(i64, String)> = ha.iter().collect();
        if sa != sb {
            return false;
        }
        let mut it = ha.iter();
        for x in hb {
            if !it.any(|y| y == x) {
                return false;
            }
        }
        something = true;
    }
    let strip = |o: &Obs| -> Vec<(String, Vec<u8>, Vec<u8>)> { o.records.iter().filter(|r| r.0 != "T_SEQUENCE" && r.0 != "T_CONFIG").cloned().collect() };
    if strip(before) != strip(after) {
        return false;
    }
    let keys = |o: &Obs, t: &str| -> Vec<Vec<u8>> { o.records.iter().filter(|r| r.0 == t).map(|r| r.1.clone()).collect() };
    if keys(before, "T_CONFIG") != keys(after, "T_CONFIG") {
        return false;
    }
    let seq = |o: &Obs| -> BTreeMap<Vec<u8>, u64> {
        o.records.iter().filter(|r| r.0 == "T_SEQUENCE").map(|r| (r.1.clone(), r.2.iter().fold(0u64, |a, b| (a << 8) | *b as u64))).collect()
    };
    let (b, a) = (seq(before), seq(after));
    if b.len() != a.len() {
        return false;
    }
    for (k, v) in &b {
        match a.get(k) {
            Some(w) if w == v => {}
            Some(w) if w > v => something = true,
            _ => return false,
        }
    }
    something
}

/// remove the admin user's table record from both observations; true when it differed
pub fn strip_admin(before: &Obs, after: &Obs) -> (Obs, Obs, bool) {
    let is_admin = |r: &(String, Vec<u8>, Vec<u8>)| r.0 == "T_USER" && r.1 == b"admin";
    let vb = before.records.iter().find(|r| is_admin(r)).map(|r| r.2.clone());
    let va = after.records.iter().find(|r| is_admin(r)).map(|r| r.2.clone());
    let changed = vb.is_some() && va.is_some() && vb != va;
    if !changed {
        return (before.clone(), after.clone(), false);
    }
    let mut b = before.clone();
    let mut a = after.clone();
    b.records.retain(|r| !is_admin(r));
    a.records.retain(|r| !is_admin(r));
    (b, a, true)
}

pub fn gen_wstep(rng: &mut Rng, nodes: u64, weights: &[u32; 9]) -> WStep {
    let node = rng.range(1, nodes);
    let total: u32 = weights.iter().sum();
    let mut r = rng.below(total as u64) as u32;
    let mut kind = 0;
    for (i, w) in weights.iter().enumerate() {
        if r < *w {
            kind = i;
            break;
        }
        r -= *w;
    }
    let t = rng.below(3) as u8;
    let g = rng.below(2) as u8;
    let dn = if rng.chance(0.7) { 2 } else { 5 };
    let d = rng.below(dn) as u8;
    match kind {
        0 => WStep::CfgSet { node, t, g, d, size: *rng.pick(&[0u32, 1, 10, 40, 200, 5000]), same: rng.chance(0.15), typ: rng.below(4) as u8, desc: rng.below(3) as u8 },
        1 => WStep::CfgDel { node, t, g, d },
        2 => WStep::NsSet { node, id: rng.below(4) as u8, name: rng.below(5) as u8 },
        3 => WStep::NsDel { node, id: rng.below(4) as u8 },
        4 => match rng.below(4) {
            0 | 1 => WStep::UserAdd { node, id: rng.below(3) as u8 },
            2 => WStep::UserUpd { node, id: rng.below(3) as u8, nick: rng.below(5) as u8 },
            _ => WStep::UserDel { node, id: rng.below(3) as u8 },
        },
        5 => WStep::SeqNext { node, key: rng.below(3) as u8, n: rng.range(1, 5) as u8 },
        6 => WStep::SeqRange { node, key: rng.below(3) as u8, len: rng.range(1, 120) as u8 },
        7 => WStep::PInstReg { node, svc: rng.below(2) as u8, ip: rng.below(4) as u8, weight: rng.below(5) as u8 },
        _ => WStep::PInstDel { node, svc: rng.below(2) as u8, ip: rng.below(4) as u8 },
    }
}

impl Check for C01 {
    fn id(&self) -> &'static str {
        "C01"
    }
    fn generate(&self, seed: u64, _tier: Tier) -> Value {
        let mut rng = Rng::derive(seed, "C01.gen", 0);
        let mut cfg = NCfg::default();
        cfg.nodes = 1;
        cfg.node.snapshot_log_size = rng.range(5, 40);
        if rng.chance(0.5) {
            cfg.disk_p_delay = *rng.pick(&[0.05, 0.3]);
            cfg.disk_max_delay_us = *rng.pick(&[200u64, 5_000, 100_000]);
        }
        let n = rng.range(8, 70);
        let mut steps = vec![];
        let w = [50u32, 12, 6, 3, 2, 8, 3, 6, 3];
        for _ in 0..n {
            if rng.chance(0.06) {
                steps.push(WStep::Restart { node: 1 });
            } else if rng.chance(0.04) {
                steps.push(WStep::Advance { ms: *rng.pick(&[100u64, 700, 3000]) });
            } else {
                steps.push(gen_wstep(&mut rng, 1, &w));
            }
        }
        steps.push(WStep::Restart { node: 1 });
        json!({"check": "C01", "seed": seed, "cfg": cfg, "steps": steps})
    }
    fn execute(&self, script: Value) -> LocalFut<ExecResult> {
        Box::pin(exec_c01(script))
    }
    fn shrink_cfg(&self, cfg: &Value) -> Vec<Value> {
        let mut out = vec![];
        if let Ok(c) = serde_json::from_value::<NCfg>(cfg.clone()) {
            if c.disk_p_delay > 0.0 {
                let mut d = c.clone();
                d.disk_p_delay = 0.0;
                d.disk_max_delay_us = 0;
                out.push(serde_json::to_value(d).unwrap());
            }
        }
        out
    }
}

// ---------------------------------------------------------------------------
// C07: leader apply path, follower replication path and start-up replay path agree

pub struct C07;

#[derive(Serialize, Deserialize, Clone, Debug, Default)]
pub struct C07Cfg {
    pub base: NCfg,
    /// where (fraction in percent of the log) the follower is restarted; 0 = never
    pub restart_at_pct: u64,
    /// compaction on the follower before the restart
    pub compact_before_restart: bool,
    pub max_batch: u64,
}

pub async fn exec_c07(script: Value) -> ExecResult {
    use async_raft_ext::raft::EntryPayload;
    let id = "C07";
    let seed = script["seed"].as_u64().unwrap_or(1);
    let cfg: C07Cfg = serde_json::from_value(script["cfg"].clone()).unwrap_or_default();
    let steps: Vec<WStep> = match serde_json::from_value(script["steps"].clone()) {
        Ok(s) => s,
        Err(e) => return ExecResult { violation: Some(Violation::new("harness.script", e.to_string())), info: RunInfo::default() },
    };
    tokio::fs::set_cfg(disk_cfg(&cfg.base));
    tokio::fs::with_disk(|d| {
        d.journal_on = false;
        d.log_ops = false;
    });
    net_reset(seed, cfg.base.net.clone());
    let root = run_root(seed);
    let mut rng = Rng::derive(seed, "C07.exec", 0);
    let mut digest = 0u64;
    let mut n_entries = 0usize;
    let mut restarted = false;
    let r: VResult<()> = async {
        // path A: a real leader applies the workload
        let a = start_node(&root, 1, true, None, &cfg.base.node).await.map_err(|e| Violation::new("harness.start", e.to_string()))?;
        vensure!(wait_leader(&a, 20_000).await.is_some(), &format!("{}.no_leader", id), "single node did not become leader");
        advance(16_000).await;
        let mut m = WModel::default();
        for (i, st) in steps.iter().enumerate() {
            sim::event(&format!("step {} {}", i, serde_json::to_string(st).unwrap_or_default()));
            let out = do_step(&a, st, &mut m, 30_000).await;
            if let OpOutcome::Timeout = out {
                vfail!(&format!("{}.op_hang", id), "step {} {:?} did not answer on the leader", i, st);
            }
        }
        settle().await;
        advance(200).await;
        let last = metrics(&a).last_log_index;
        vensure!(wait_applied(&a, last, 20_000).await, &format!("{}.leader_not_applied", id), "leader did not apply its own log");
        let entries = a.app.raft_store.get_log_entries(1, last + 1).await.map_err(|e| Violation::new(&format!("{}.read_log", id), e.to_string()))?;
        vensure!(entries.len() as u64 == last, &format!("{}.read_log", id), "leader log has {} entries but last index is {}", entries.len(), last);
        n_entries = entries.len();
        let obs_a = observe(&a, "A").await.map_err(|e| Violation::new(&format!("{}.observe_failed", id), e.to_string()))?;
        check_cfg_model(id, &obs_a, &m, "leader path")?;
        kill_node(1).await;

        // path B (+C): a passive node receives the same committed entries through the follower path
        let mut b = start_node(&root, 2, false, None, &cfg.base.node).await.map_err(|e| Violation::new("harness.start", e.to_string()))?;
        advance(500).await;
        let restart_at = if cfg.restart_at_pct > 0 { (entries.len() as u64 * cfg.restart_at_pct / 100).max(1) as usize } else { usize::MAX };
        let mut pos = 0usize;
        while pos < entries.len() {
            let mut n = rng.range(1, cfg.max_batch.max(1)) as usize;
            if pos < restart_at && pos + n > restart_at {
                n = restart_at - pos;
            }
            let end = (pos + n).min(entries.len());
            let batch = &entries[pos..end];
            b.app.raft_store.replicate_to_log(batch).await.map_err(|e| Violation::new(&format!("{}.follower_append", id), format!("replicate_to_log({}..{}) failed: {}", pos + 1, end, e)))?;
            let datas: Vec<(&u64, &rnacos::raft::store::ClientRequest)> = batch.iter().filter_map(|e| match &e.payload { EntryPayload::Normal(nm) => Some((&e.index, &nm.data)), _ => None }).collect();
            if !datas.is_empty() {
                b.app.raft_store.replicate_to_state_machine(&datas).await.map_err(|e| Violation::new(&format!("{}.follower_apply", id), format!("replicate_to_state_machine failed: {}", e)))?;
            }
            pos = end;
            if pos == restart_at && !restarted {
                // path C: start-up replay (snapshot + log up to the recorded applied index), then on through the follower path
                settle().await;
                if cfg.compact_before_restart {
                    let _ = within(30_000, b.app.raft_store.do_log_compaction()).await;
                    sim::count("probe.follower_compacted_before_restart", 1);
                    settle().await;
                }
                stop_node(2).await;
                b = start_node(&root, 2, false, None, &cfg.base.node).await.map_err(|e| Violation::new(&format!("{}.restart_failed", id), e.to_string()))?;
                advance(3_000).await;
                restarted = true;
                sim::count("probe.follower_restarted_mid_log", 1);
            }
        }
        settle().await;
        advance(500).await;
        let mut obs_b = observe(&b, "B").await.map_err(|e| Violation::new(&format!("{}.observe_failed", id), e.to_string()))?;
        let mut waited = 0;
        while obs_b != obs_a && waited < 20 {
            advance(500).await;
            waited += 1;
            obs_b = observe(&b, "B").await.map_err(|e| Violation::new(&format!("{}.observe_failed", id), e.to_string()))?;
        }
        vensure!(obs_a == obs_b, &format!("{}.paths_differ", id), "the node fed through the follower path{} serves something else than the leader that applied the same {} entries: {}", if restarted { " (with a restart in the middle: start-up replay)" } else { "" }, entries.len(), obs_diff(&obs_a, &obs_b));
        digest = obs_digest(&obs_b);
        Ok(())
    }
    .await;
    let info = RunInfo { digest, nontrivial: n_entries >= 10, info: json!({"entries": n_entries, "restarted": restarted}), findings: vec![] };
    for n in live_nodes() {
        kill_node(n.id).await;
    }
    ExecResult { violation: r.err(), info }
}

impl Check for C07 {
    fn id(&self) -> &'static str {
        "C07"
    }
    fn generate(&self, seed: u64, _tier: Tier) -> Value {
        let mut rng = Rng::derive(seed, "C07.gen", 0);
        let mut cfg = C07Cfg::default();
        cfg.base.nodes = 1;
        cfg.base.node.snapshot_log_size = 1_000_000;
        if rng.chance(0.4) {
            cfg.base.disk_p_delay = 0.2;
            cfg.base.disk_max_delay_us = *rng.pick(&[200u64, 5_000]);
        }
        cfg.restart_at_pct = if rng.chance(0.6) { rng.range(5, 95) } else { 0 };
        cfg.compact_before_restart = rng.chance(0.5);
        cfg.max_batch = *rng.pick(&[1u64, 2, 5, 20, 1000]);
        let n = rng.range(5, 80);
        let mut steps = vec![];
        let w = [40u32, 10, 8, 4, 3, 10, 4, 8, 4];
        for _ in 0..n {
            steps.push(gen_wstep(&mut rng, 1, &w));
        }
        json!({"check": "C07", "seed": seed, "cfg": cfg, "steps": steps})
    }
    fn execute(&self, script: Value) -> LocalFut<ExecResult> {
        Box::pin(exec_c07(script))
    }
}
