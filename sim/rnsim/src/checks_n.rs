//! Checks on Rig-N (complete nodes): C01 ...
use crate::core::*;
use crate::rig_n::*;
use crate::wl::*;
use crate::{api_app, vensure, vfail};
use serde::{Deserialize, Serialize};
use async_raft_ext::RaftStorage;
use serde_json::{json, Value};
use std::collections::BTreeMap;
use std::sync::Arc;
use tokio::sim::{self, Rng};

#[derive(Serialize, Deserialize, Clone, Debug, Default)]
pub struct NCfg {
    pub node: NodeCfg,
    pub net: NetCfg,
    pub disk_p_delay: f64,
    pub disk_max_delay_us: u64,
    pub nodes: u64,
}

pub fn disk_cfg(c: &NCfg) -> tokio::fs::DiskCfg {
    tokio::fs::DiskCfg { p_delay: c.disk_p_delay, max_delay_us: c.disk_max_delay_us, ..Default::default() }
}

/// Full observation of one node: replicated-state records + public queries.
#[derive(Clone, Debug, PartialEq)]
pub struct Obs {
    pub records: Vec<(String, Vec<u8>, Vec<u8>)>,
    pub cfg: BTreeMap<String, Option<(String, String, Option<String>, Option<String>)>>,
    pub hist: BTreeMap<String, Vec<(i64, String)>>,
    pub ns: Vec<(String, String)>,
    pub users: Vec<(String, String)>,
    pub listing: Vec<(String, String, String)>,
    /// MCP servers and tool definitions as served by the public queries (canonical JSON)
    pub mcp: Vec<(String, String)>,
}

pub async fn observe(n: &NodeH, tag: &str) -> anyhow::Result<Obs> {
    let records = snapshot_records(n, tag).await?;
    let mut cfg = BTreeMap::new();
    let mut hist = BTreeMap::new();
    for t in 0..TENANTS.len() as u8 {
        for g in 0..GROUPS.len() as u8 {
            for d in 0..DATA_IDS.len() as u8 {
                let k = key_str(t, g, d);
                let v = cfg_get(n, cfg_key(t, g, d)).await?;
                if v.is_some() {
                    let (_, h) = cfg_history(n, (t, g, d), 200, 0).await?;
                    hist.insert(k.clone(), h);
                }
                cfg.insert(k, v);
            }
        }
    }
    let mut ns = ns_list(n).await?;
    ns.sort();
    let mut users = user_list(n).await?;
    users.sort();
    let (_, mut listing) = cfg_list(n, None, 0, 10_000).await?;
    listing.sort();
    let mcp = mcp_obs(n).await?;
    Ok(Obs { records, cfg, hist, ns, users, listing, mcp })
}

pub fn obs_diff(a: &Obs, b: &Obs) -> String {
    let mut out = vec![];
    if a.records != b.records {
        out.push(format!("state records: {}", records_diff(&a.records, &b.records)));
    }
    for (k, v) in &a.cfg {
        if b.cfg.get(k) != Some(v) {
            out.push(format!("config {}: {:?} vs {:?}", k, v.as_ref().map(|x| (trunc(&x.0), &x.1, &x.2, &x.3)), b.cfg.get(k).and_then(|x| x.as_ref()).map(|x| (trunc(&x.0), &x.1, &x.2, &x.3))));
        }
    }
    for (k, v) in &a.hist {
        if b.hist.get(k) != Some(v) {
            out.push(format!("history {}: {:?} vs {:?}", k, v.iter().map(|x| (x.0, trunc(&x.1))).collect::<Vec<_>>(), b.hist.get(k).map(|h| h.iter().map(|x| (x.0, trunc(&x.1))).collect::<Vec<_>>())));
        }
    }
    if a.ns != b.ns {
        out.push(format!("namespaces {:?} vs {:?}", a.ns, b.ns));
    }
    if a.users != b.users {
        out.push(format!("users {:?} vs {:?}", a.users, b.users));
    }
    if a.mcp != b.mcp {
        for (k, v) in &a.mcp {
            match b.mcp.iter().find(|x| &x.0 == k) {
                None => out.push(format!("mcp {}: served vs not served", k)),
                Some(x) if &x.1 != v => {
                    let (a, b): (Vec<char>, Vec<char>) = (v.chars().collect(), x.1.chars().collect());
                    let p = a.iter().zip(b.iter()).position(|(x, y)| x != y).unwrap_or(a.len().min(b.len()));
                    let ctx = |c: &Vec<char>| c[p.saturating_sub(70)..(p + 50).min(c.len())].iter().collect::<String>();
                    out.push(format!("mcp {}: {} vs {} (first difference at {}: ...{}... vs ...{}...)", k, trunc(v), trunc(&x.1), p, ctx(&a), ctx(&b)))
                }
                _ => {}
            }
        }
        for (k, _) in &b.mcp {
            if !a.mcp.iter().any(|x| &x.0 == k) {
                out.push(format!("mcp {}: not served vs served", k));
            }
        }
    }
    if a.listing != b.listing {
        out.push(format!("listing {:?} vs {:?}", a.listing, b.listing));
    }
    out.truncate(5);
    out.join(" || ")
}

fn trunc(s: &str) -> String {
    if s.chars().count() > 24 {
        format!("{}..({}B)", s.chars().take(16).collect::<String>(), s.len())
    } else {
        s.to_string()
    }
}

pub fn obs_digest(o: &Obs) -> u64 {
    let mut h = records_digest(&o.records);
    h ^= digest_str(&format!("{:?}{:?}{:?}", o.cfg, o.ns, o.users));
    h
}

/// the config part of an observation against the reference model
pub fn check_cfg_model(id: &str, o: &Obs, m: &WModel, when: &str) -> VResult<()> {
    check_cfg_model_opt(id, o, m, when, false)
}

/// `dups_tolerated`: a recorded finding (replay of entries already contained in the snapshot) has put
/// duplicate entries into a history earlier in this run; compare the history without duplicates
pub fn check_cfg_model_opt(id: &str, o: &Obs, m: &WModel, when: &str, dups_tolerated: bool) -> VResult<()> {
    for t in 0..TENANTS.len() as u8 {
        for g in 0..GROUPS.len() as u8 {
            for d in 0..DATA_IDS.len() as u8 {
                let k = key_str(t, g, d);
                let got = o.cfg.get(&k).cloned().flatten();
                match (m.cfg.get(&k), got) {
                    (None, None) => {}
                    (None, Some(g)) => vfail!(&format!("{}.deleted_reappears", id), "{}: key {} is served ({}) but was removed / never written", when, k, trunc(&g.0)),
                    (Some(e), None) => vfail!(&format!("{}.missing", id), "{}: key {} acknowledged with content {} is not served", when, k, trunc(&e.content)),
                    (Some(e), Some(g)) => {
                        vensure!(g.0 == e.content, &format!("{}.content", id), "{}: key {} serves {} but the last acknowledged publish was {}", when, k, trunc(&g.0), trunc(&e.content));
                        let md5 = format!("{:x}", md5::compute(e.content.as_bytes()));
                        vensure!(g.1 == md5, &format!("{}.md5", id), "{}: key {} md5 {} but md5(content) is {}", when, k, g.1, md5);
                        vensure!(g.2 == e.typ && g.3 == e.desc, &format!("{}.type_desc", id), "{}: key {} type/desc {:?}/{:?} but {:?}/{:?} was published", when, k, g.2, g.3, e.typ, e.desc);
                        let h = o.hist.get(&k).cloned().unwrap_or_default();
                        // newest first, one per content change, bounded to the last 100
                        let mut want: Vec<String> = e.history.clone();
                        want.reverse();
                        want.truncate(100);
                        let mut have: Vec<String> = h.iter().map(|x| x.1.clone()).collect();
                        if dups_tolerated {
                            let mut seen = std::collections::HashSet::new();
                            have.retain(|c| seen.insert(c.clone()));
                        }
                        vensure!(have == want, &format!("{}.history", id), "{}: key {} history (newest first) {:?} but expected {:?}", when, k, have.iter().map(|s| trunc(s)).collect::<Vec<_>>(), want.iter().map(|s| trunc(s)).collect::<Vec<_>>());
                        let mut ids: Vec<i64> = h.iter().map(|x| x.0).collect();
                        let sorted_desc = dups_tolerated || ids.windows(2).all(|w| w[0] > w[1]);
                        vensure!(sorted_desc, &format!("{}.history_ids", id), "{}: key {} history ids not strictly decreasing (newest first): {:?}", when, k, ids);
                        ids.clear();
                    }
                }
            }
        }
    }
    let ns: BTreeMap<String, String> = o.ns.iter().cloned().collect();
    for (k, v) in &m.ns {
        vensure!(ns.get(k).map(|x| x.split('#').next().unwrap_or("").to_string()).as_ref() == Some(v), &format!("{}.namespace", id), "{}: namespace {} should be {:?} but the node lists {:?}", when, k, v, ns.get(k));
    }
    for (k, _) in &ns {
        if k.starts_with("ns") {
            vensure!(m.ns.contains_key(k), &format!("{}.namespace", id), "{}: namespace {} is listed but was deleted", when, k);
        }
    }
    let users: BTreeMap<String, String> = o.users.iter().cloned().collect();
    for (k, v) in &m.users {
        vensure!(users.get(k) == Some(v), &format!("{}.user", id), "{}: user {} should have nickname {:?} but the node lists {:?}", when, k, v, users.get(k));
    }
    for (k, _) in &users {
        if k.starts_with("user") {
            vensure!(m.users.contains_key(k), &format!("{}.user", id), "{}: user {} is listed but was removed", when, k);
        }
    }
    Ok(())
}

pub async fn wait_applied(n: &NodeH, index: u64, ms: u64) -> bool {
    let deadline = tokio::time::Instant::now() + std::time::Duration::from_millis(ms);
    loop {
        let m = metrics(n);
        if m.last_applied >= index && m.current_leader.is_some() {
            return true;
        }
        if tokio::time::Instant::now() >= deadline {
            return false;
        }
        tokio::time::sleep(std::time::Duration::from_millis(100)).await;
    }
}

// ---------------------------------------------------------------------------
// C01: served state survives restart (single complete node)

pub struct C01;

pub async fn exec_c01(script: Value) -> ExecResult {
    let id = "C01";
    let seed = script["seed"].as_u64().unwrap_or(1);
    let cfg: NCfg = serde_json::from_value(script["cfg"].clone()).unwrap_or_default();
    let steps: Vec<WStep> = match serde_json::from_value(script["steps"].clone()) {
        Ok(s) => s,
        Err(e) => return ExecResult { violation: Some(Violation::new("harness.script", e.to_string())), info: RunInfo::default() },
    };
    // paced: every operation is followed by quiescence, so a compaction never overlaps a later apply and
    // the recorded defect "snapshot newer than its header" cannot occur: its signature is then not tolerated
    let paced = script["paced"].as_bool().unwrap_or(false);
    tokio::fs::set_cfg(disk_cfg(&cfg));
    tokio::fs::with_disk(|d| {
        d.journal_on = false;
        d.log_ops = false;
    });
    net_reset(seed, cfg.net.clone());
    let root = run_root(seed);
    let mut restarts = 0u64;
    let mut digest = 0u64;
    let mut findings: Vec<Violation> = vec![];
    let r: VResult<()> = async {
        let mut n = start_node(&root, 1, true, None, &cfg.node).await.map_err(|e| Violation::new("harness.start", e.to_string()))?;
        vensure!(wait_leader(&n, 20_000).await.is_some(), &format!("{}.no_leader", id), "single node did not become leader within 20 simulated s");
        // let the node's own one-time writes finish (auto-init entries, default admin user after ~10.5 s,
        // namespace sync marker after 5 s): they are not part of the workload
        advance(16_000).await;
        let mut m = WModel::default();
        for (i, st) in steps.iter().enumerate() {
            sim::event(&format!("step {} {}", i, serde_json::to_string(st).unwrap_or_default()));
            match st {
                WStep::Restart { .. } | WStep::KillRestart { .. } | WStep::PlantSnapshot { .. } => {
                    settle().await;
                    let when = format!("step {} (restart #{})", i, restarts + 1);
                    let before = observe(&n, "pre").await.map_err(|e| Violation::new(&format!("{}.observe_failed", id), format!("{} before stop: {}", when, e)))?;
                    check_cfg_model_opt(id, &before, &m, &format!("{} before the stop", when), !findings.is_empty())?;
                    let last_log = metrics(&n).last_log_index;
                    let compactions = match n.app.raft_store.get_current_snapshot().await { Ok(Some(s)) => s.index, _ => 0 };
                    if compactions > 0 {
                        sim::count("probe.restart_with_snapshot", 1);
                        if compactions == last_log {
                            sim::count("probe.restart_right_after_compaction", 1);
                        } else {
                            sim::count("probe.restart_snapshot_plus_suffix", 1);
                        }
                    }
                    stop_node(1).await;
                    restarts += 1;
                    if let WStep::PlantSnapshot { cut, .. } = st {
                        // what a kill in the middle of the next compaction would have left: the first part of a snapshot
                        // file under the next snapshot id, not recorded in the index (every acknowledged write is on disk)
                        let files = tokio::fs::list_files(&format!("{}/n1/", root));
                        let newest = files.iter().filter_map(|(name, _)| name.rsplit('/').next().and_then(|f| f.strip_prefix("snapshot_")).and_then(|x| x.parse::<u64>().ok()).map(|idn| (idn, name.clone()))).max();
                        if let Some((idn, name)) = newest {
                            if let Some(data) = tokio::fs::read_file_raw(&name) {
                                let keep = data.len() - (data.len() * (*cut as usize % 100).max(1) / 100).max(1);
                                let planted = name.replace(&format!("snapshot_{}", idn), &format!("snapshot_{}", idn + 1));
                                tokio::fs::write_file_raw(&planted, data[..keep].to_vec());
                                sim::count("probe.partial_snapshot_planted", 1);
                                sim::event(&format!("planted partial snapshot_{} ({} of {} bytes)", idn + 1, keep, data.len()));
                            }
                        }
                    }
                    n = start_node(&root, 1, true, None, &cfg.node).await.map_err(|e| Violation::new(&format!("{}.restart_failed", id), format!("{}: node does not start: {}", when, e)))?;
                    // every incarnation outlives its own one-time start-up timers (default-admin check at
                    // +10.5 s, namespace sync at +5 s): a killed incarnation's actors cannot be destroyed inside
                    // the shared runtime, and its timers firing later would act on stale state
                    if std::env::var("RNSIM_DEBUG").is_ok() {
                        for i in 0..13 {
                            advance(1_000).await;
                            if let Ok(recs) = snapshot_records(&n, "dbg").await {
                                let adm = recs.iter().find(|r| r.0 == "T_USER" && r.1 == b"admin").map(|r| sim::fnv64(&r.2));
                                eprintln!("dbg restart#{} +{}s records={} admin={:x?} leader={:?} applied={}", restarts, i + 1, recs.len(), adm, metrics(&n).current_leader, metrics(&n).last_applied);
                            }
                        }
                    } else {
                        advance(12_000).await;
                    }
                    vensure!(wait_applied(&n, last_log, 40_000).await, &format!("{}.not_caught_up", id), "{}: 40 simulated s after the restart the node has applied {} of {} log entries (leader {:?})", when, metrics(&n).last_applied, last_log, metrics(&n).current_leader);
                    advance(200).await;
                    // the start-up load (snapshot + log suffix) runs asynchronously; the statement does not
                    // bound how long it may take, so poll for up to 60 simulated seconds
                    let mut after = observe(&n, "post").await.map_err(|e| Violation::new(&format!("{}.observe_failed", id), format!("{} after restart: {}", when, e)))?;
                    let mut waited = 0;
                    while before != after && waited < 60 {
                        if waited == 0 {
                            sim::count("probe.observed_partial_state_during_startup_load", 1);
                        }
                        advance(1000).await;
                        waited += 1;
                        after = observe(&n, "post").await.map_err(|e| Violation::new(&format!("{}.observe_failed", id), format!("{} after restart: {}", when, e)))?;
                    }
                    // root-cause signatures of two recorded defects (see known_findings.jsonl); anything else is a violation
                    let (b2, a2, admin_changed) = strip_admin(&before, &after);
                    // in a paced run the only apply that can be in flight during a compaction is the entry that triggered
                    // it; the defect then needs that entry to lie *behind* the snapshot header (snapshot index < last log
                    // index at the stop). A restart right after a compaction that covers the whole log replays nothing:
                    // there the signature is never tolerated
                    let replay_sig = (!paced || compactions < last_log) && b2 != a2 && only_sequences_advanced(&b2, &a2);
                    if before != after && (b2 == a2 || replay_sig) {
                        if admin_changed {
                            sim::count("probe.default_admin_recreated_during_startup_load", 1);
                            if !findings.iter().any(|f| f.clause.ends_with("default_admin_recreated_during_startup_load")) {
                                findings.push(Violation::new(&format!("{}.default_admin_recreated_during_startup_load", id), format!("{}: the stored admin user (password hash, timestamps) differs after the restart: 0.5 s after start the node, already leader, found the user table still empty because the start-up load had not finished, and created the default admin again: {}", when, records_diff(&before.records, &after.records))));
                            }
                        }
                        if replay_sig {
                            sim::count("probe.replay_applies_entries_already_in_snapshot", 1);
                            if !findings.iter().any(|f| f.clause.ends_with("replay_applies_entries_already_in_snapshot")) {
                                findings.push(Violation::new(&format!("{}.replay_applies_entries_already_in_snapshot", id), format!("{}: entries newer than the snapshot header index were already contained in the snapshot and are applied again by the start-up replay: a sequence counter is larger and/or change-history entries appear twice after the restart: {}", when, obs_diff(&b2, &a2))));
                            }
                        }
                    } else if before != after {
                        let files = tokio::fs::list_files(&format!("{}/n1/", root));
                        let mut dbg = format!("files {:?}", files.iter().map(|(n, l)| (n.rsplit('/').next().unwrap_or("").to_string(), *l)).collect::<Vec<_>>());
                        for (name, _) in &files {
                            if name.contains("snapshot_") {
                                if let Some(data) = tokio::fs::read_file_raw(name) {
                                    // manual frame walk
                                    let mut pos = 0usize;
                                    let mut cnt = 0;
                                    while pos < data.len() {
                                        let mut l = 0usize;
                                        let mut sh = 0;
                                        let mut p = pos;
                                        loop {
                                            if p >= data.len() || sh > 56 { break; }
                                            let b = data[p];
                                            l |= ((b & 0x7f) as usize) << sh;
                                            sh += 7;
                                            p += 1;
                                            if b & 0x80 == 0 { break; }
                                        }
                                        if l == 0 || l > data.len() { break; }
                                        pos = p + l;
                                        cnt += 1;
                                    }
                                    dbg.push_str(&format!(" | {} frames={} end={} len={}", name.rsplit('/').next().unwrap_or(""), cnt, pos, data.len()));
                                }
                            }
                        }
                        vfail!(&format!("{}.differs_after_restart", id), "{}: what the node served before the stop differs from what it serves after the restart: {} [[{}]]", when, obs_diff(&before, &after), dbg);
                    }
                    digest = digest.wrapping_mul(31).wrapping_add(obs_digest(&after));
                }
                _ => {
                    let out = do_step(&n, st, &mut m, 30_000).await;
                    match (&out, st) {
                        (OpOutcome::Timeout, _) => vfail!(&format!("{}.op_hang", id), "step {} {:?} did not answer within 30 simulated s on a fault-free single node", i, st),
                        (OpOutcome::Err(e), WStep::UserAdd { .. }) | (OpOutcome::Err(e), WStep::UserUpd { .. }) | (OpOutcome::Err(e), WStep::UserDel { .. }) => {
                            sim::event(&format!("user op refused: {}", e));
                        }
                        (OpOutcome::Err(e), _) => vfail!(&format!("{}.op_failed", id), "step {} {:?} failed on a fault-free single node: {}", i, st, e),
                        _ => {}
                    }
                    if paced {
                        settle().await;
                        advance(20).await;
                        settle().await;
                    }
                }
            }
        }
        Ok(())
    }
    .await;
    let info = RunInfo { digest, nontrivial: restarts > 0 && steps.len() >= 5, info: json!({"restarts": restarts}), findings };
    for n in live_nodes() {
        kill_node(n.id).await;
    }
    ExecResult { violation: r.err(), info }
}

/// Root-cause signature of "the snapshot content is newer than its header index, so the start-up
/// replay applies entries that the snapshot already contains": the two observations are equal except
/// that (a) sequence counters are larger afterwards and/or (b) the change history of a key contains
/// the same (id, content) entries again (the set of entries is unchanged, the old list is a
/// subsequence of the new one). Current contents, md5, type, description, namespaces, users and
/// listings must be identical.
pub fn only_sequences_advanced(before: &Obs, after: &Obs) -> bool {
    if before.cfg != after.cfg || before.ns != after.ns || before.users != after.users || before.listing != after.listing {
        return false;
    }
    let mut something = false;
    // histories: same set, old is a subsequence of new
    if before.hist.len() != after.hist.len() {
        return false;
    }
    for (k, hb) in &before.hist {
        let ha = match after.hist.get(k) {
            Some(h) => h,
            None => return false,
        };
        if ha == hb {
            continue;
        }
        let sb: std::collections::BTreeSet<&(i64, String)> = hb.iter().collect();
        let sa: std::collections::BTreeSet<&(i64, String)> = ha.iter().collect();
        // every entry of the old list is still there; what is new is a re-application: the same (id, content) again, or
        // - for a publish that was a no-op when first applied (same content as the value then current) and is replayed over
        // the snapshot's older value - that publish's own id with a content the key's history already contains
        if !sb.iter().all(|x| sa.contains(x)) {
            return false;
        }
        let old_contents: std::collections::BTreeSet<&String> = hb.iter().map(|x| &x.1).collect();
        if !sa.iter().all(|x| sb.contains(x) || old_contents.contains(&x.1)) {
            return false;
        }
        let mut it = ha.iter();
        for x in hb {
            if !it.any(|y| y == x) {
                return false;
            }
        }
        something = true;
    }
    // MCP servers: a re-applied "create / update and release" pushes the released value into the server's history list a
    // second time; equal once history entries with the same value id are counted once
    // (a re-applied release also lists the value that is current - its id equals the current value's - and gives the released
    // value the current value's id; the content of all three is the same either way)
    let mcp_dedup = |o: &Obs| -> Vec<(String, String)> {
        o.mcp
            .iter()
            .map(|(k, v)| {
                let mut j: serde_json::Value = serde_json::from_str(v).unwrap_or(serde_json::Value::Null);
                let cur_id = j.get("currentValue").or_else(|| j.get("current_value")).and_then(|c| c.get("id")).and_then(|x| x.as_u64()).unwrap_or(u64::MAX);
                if let Some(h) = j.get_mut("histories").and_then(|h| h.as_array_mut()) {
                    let mut seen = std::collections::BTreeSet::new();
                    h.retain(|e| {
                        let id = e.get("id").and_then(|x| x.as_u64()).unwrap_or(0);
                        id != cur_id && seen.insert(id)
                    });
                }
                for rk in ["releaseValue", "release_value"] {
                    if let Some(r) = j.get_mut(rk).and_then(|r| r.as_object_mut()) {
                        r.remove("id");
                    }
                }
                (k.clone(), j.to_string())
            })
            .collect()
    };
    let mcp_reapplied = before.mcp != after.mcp;
    if mcp_reapplied {
        if mcp_dedup(before) != mcp_dedup(after) {
            return false;
        }
        something = true;
    }
    let strip = |o: &Obs| -> Vec<(String, Vec<u8>, Vec<u8>)> { o.records.iter().filter(|r| r.0 != "T_SEQUENCE" && r.0 != "T_CONFIG" && !(mcp_reapplied && r.0.contains("MCP_SERVER"))).cloned().collect() };
    if strip(before) != strip(after) {
        return false;
    }
    if mcp_reapplied {
        let mk = |o: &Obs| -> Vec<Vec<u8>> { o.records.iter().filter(|r| r.0.contains("MCP_SERVER")).map(|r| r.1.clone()).collect() };
        if mk(before) != mk(after) {
            return false;
        }
    }
    let keys = |o: &Obs, t: &str| -> Vec<Vec<u8>> { o.records.iter().filter(|r| r.0 == t).map(|r| r.1.clone()).collect() };
    if keys(before, "T_CONFIG") != keys(after, "T_CONFIG") {
        return false;
    }
    let seq = |o: &Obs| -> BTreeMap<Vec<u8>, u64> {
        o.records.iter().filter(|r| r.0 == "T_SEQUENCE").map(|r| (r.1.clone(), r.2.iter().fold(0u64, |a, b| (a << 8) | *b as u64))).collect()
    };
    let (b, a) = (seq(before), seq(after));
    if b.len() != a.len() {
        return false;
    }
    for (k, v) in &b {
        match a.get(k) {
            Some(w) if w == v => {}
            Some(w) if w > v => something = true,
            _ => return false,
        }
    }
    something
}

/// remove the admin user's table record from both observations; true when it differed
pub fn strip_admin(before: &Obs, after: &Obs) -> (Obs, Obs, bool) {
    let is_admin = |r: &(String, Vec<u8>, Vec<u8>)| r.0 == "T_USER" && r.1 == b"admin";
    let vb = before.records.iter().find(|r| is_admin(r)).map(|r| r.2.clone());
    let va = after.records.iter().find(|r| is_admin(r)).map(|r| r.2.clone());
    let changed = vb.is_some() && va.is_some() && vb != va;
    if !changed {
        return (before.clone(), after.clone(), false);
    }
    let mut b = before.clone();
    let mut a = after.clone();
    b.records.retain(|r| !is_admin(r));
    a.records.retain(|r| !is_admin(r));
    (b, a, true)
}

pub fn gen_wstep(rng: &mut Rng, nodes: u64, weights: &[u32; 9]) -> WStep {
    let node = rng.range(1, nodes);
    let total: u32 = weights.iter().sum();
    let mut r = rng.below(total as u64) as u32;
    let mut kind = 0;
    for (i, w) in weights.iter().enumerate() {
        if r < *w {
            kind = i;
            break;
        }
        r -= *w;
    }
    let t = rng.below(3) as u8;
    let g = rng.below(2) as u8;
    let dn = if rng.chance(0.7) { 2 } else { 5 };
    let d = rng.below(dn) as u8;
    match kind {
        0 => WStep::CfgSet { node, t, g, d, size: *rng.pick(&[0u32, 1, 10, 40, 200, 5000]), same: rng.chance(0.15), typ: rng.below(5) as u8, desc: rng.below(4) as u8 },
        1 => WStep::CfgDel { node, t, g, d },
        2 => WStep::NsSet { node, id: rng.below(4) as u8, name: rng.below(5) as u8 },
        3 => WStep::NsDel { node, id: rng.below(4) as u8 },
        4 => match rng.below(4) {
            0 | 1 => WStep::UserAdd { node, id: rng.below(3) as u8 },
            2 => WStep::UserUpd { node, id: rng.below(3) as u8, nick: rng.below(5) as u8 },
            _ => WStep::UserDel { node, id: rng.below(3) as u8 },
        },
        5 => WStep::SeqNext { node, key: rng.below(3) as u8, n: rng.range(1, 5) as u8 },
        6 => WStep::SeqRange { node, key: rng.below(3) as u8, len: rng.range(1, 120) as u8 },
        7 => WStep::PInstReg { node, svc: rng.below(2) as u8, ip: rng.below(4) as u8, weight: rng.below(5) as u8 },
        _ => WStep::PInstDel { node, svc: rng.below(2) as u8, ip: rng.below(4) as u8 },
    }
}

impl Check for C01 {
    fn id(&self) -> &'static str {
        "C01"
    }
    fn generate(&self, seed: u64, _tier: Tier) -> Value {
        let mut rng = Rng::derive(seed, "C01.gen", 0);
        let mut cfg = NCfg::default();
        cfg.nodes = 1;
        cfg.node.snapshot_log_size = rng.range(5, 40);
        if rng.chance(0.5) {
            cfg.disk_p_delay = *rng.pick(&[0.05, 0.3]);
            cfg.disk_max_delay_us = *rng.pick(&[200u64, 5_000, 100_000]);
        }
        let n = rng.range(8, 70);
        let mut steps = vec![];
        let w = [50u32, 12, 6, 3, 2, 8, 3, 6, 3];
        for _ in 0..n {
            if rng.chance(0.06) {
                steps.push(if rng.chance(0.3) { WStep::PlantSnapshot { node: 1, cut: rng.range(1, 95) as u8 } } else { WStep::Restart { node: 1 } });
            } else if rng.chance(0.04) {
                steps.push(WStep::Advance { ms: *rng.pick(&[100u64, 700, 3000]) });
            } else {
                steps.push(gen_wstep(&mut rng, 1, &w));
            }
        }
        // MCP definitions (a third of the runs): tool definitions that move on while servers still refer to older versions
        let mut rm = Rng::derive(seed, "C01.mcp", 0);
        if rm.chance(0.35) {
            let k = rm.range(3, 12);
            for _ in 0..k {
                let at = rm.below(steps.len() as u64 + 1) as usize;
                steps.insert(at, gen_mcp_step(&mut rm, 1));
            }
            // and more than one compaction + restart cycle after them
            for _ in 0..rm.range(0, 2) {
                for _ in 0..cfg.node.snapshot_log_size + 2 {
                    steps.push(gen_wstep(&mut rm, 1, &w));
                }
                steps.push(WStep::Restart { node: 1 });
            }
        }
        steps.push(WStep::Restart { node: 1 });
        let paced = rng.chance(0.5);
        json!({"check": "C01", "seed": seed, "cfg": cfg, "steps": steps, "paced": paced})
    }
    fn execute(&self, script: Value) -> LocalFut<ExecResult> {
        Box::pin(exec_c01(script))
    }
    fn shrink_cfg(&self, cfg: &Value) -> Vec<Value> {
        let mut out = vec![];
        if let Ok(c) = serde_json::from_value::<NCfg>(cfg.clone()) {
            if c.disk_p_delay > 0.0 {
                let mut d = c.clone();
                d.disk_p_delay = 0.0;
                d.disk_max_delay_us = 0;
                out.push(serde_json::to_value(d).unwrap());
            }
        }
        out
    }
}

// ---------------------------------------------------------------------------
// C07: leader apply path, follower replication path and start-up replay path agree

pub struct C07;

#[derive(Serialize, Deserialize, Clone, Debug, Default)]
pub struct C07Cfg {
    pub base: NCfg,
    /// where (fraction in percent of the log) the follower is restarted; 0 = never
    pub restart_at_pct: u64,
    /// compaction on the follower before the restart
    pub compact_before_restart: bool,
    pub max_batch: u64,
}

pub async fn exec_c07(script: Value) -> ExecResult {
    use async_raft_ext::raft::EntryPayload;
    let id = "C07";
    let seed = script["seed"].as_u64().unwrap_or(1);
    let cfg: C07Cfg = serde_json::from_value(script["cfg"].clone()).unwrap_or_default();
    let steps: Vec<WStep> = match serde_json::from_value(script["steps"].clone()) {
        Ok(s) => s,
        Err(e) => return ExecResult { violation: Some(Violation::new("harness.script", e.to_string())), info: RunInfo::default() },
    };
    tokio::fs::set_cfg(disk_cfg(&cfg.base));
    tokio::fs::with_disk(|d| {
        d.journal_on = false;
        d.log_ops = false;
    });
    net_reset(seed, cfg.base.net.clone());
    let root = run_root(seed);
    let mut rng = Rng::derive(seed, "C07.exec", 0);
    let mut digest = 0u64;
    let mut n_entries = 0usize;
    let mut restarted = false;
    let r: VResult<()> = async {
        // path A: a real leader applies the workload
        let a = start_node(&root, 1, true, None, &cfg.base.node).await.map_err(|e| Violation::new("harness.start", e.to_string()))?;
        vensure!(wait_leader(&a, 20_000).await.is_some(), &format!("{}.no_leader", id), "single node did not become leader");
        advance(16_000).await;
        let mut m = WModel::default();
        for (i, st) in steps.iter().enumerate() {
            sim::event(&format!("step {} {}", i, serde_json::to_string(st).unwrap_or_default()));
            let out = do_step(&a, st, &mut m, 30_000).await;
            if let OpOutcome::Timeout = out {
                vfail!(&format!("{}.op_hang", id), "step {} {:?} did not answer on the leader", i, st);
            }
        }
        settle().await;
        advance(200).await;
        let last = metrics(&a).last_log_index;
        vensure!(wait_applied(&a, last, 20_000).await, &format!("{}.leader_not_applied", id), "leader did not apply its own log");
        let entries = a.app.raft_store.get_log_entries(1, last + 1).await.map_err(|e| Violation::new(&format!("{}.read_log", id), e.to_string()))?;
        vensure!(entries.len() as u64 == last, &format!("{}.read_log", id), "leader log has {} entries but last index is {}", entries.len(), last);
        n_entries = entries.len();
        let obs_a = observe(&a, "A").await.map_err(|e| Violation::new(&format!("{}.observe_failed", id), e.to_string()))?;
        check_cfg_model(id, &obs_a, &m, "leader path")?;
        kill_node(1).await;

        // path B (+C): a passive node receives the same committed entries through the follower path
        let mut b = start_node(&root, 2, false, None, &cfg.base.node).await.map_err(|e| Violation::new("harness.start", e.to_string()))?;
        advance(500).await;
        let restart_at = if cfg.restart_at_pct > 0 { (entries.len() as u64 * cfg.restart_at_pct / 100).max(1) as usize } else { usize::MAX };
        let mut pos = 0usize;
        while pos < entries.len() {
            let mut n = rng.range(1, cfg.max_batch.max(1)) as usize;
            if pos < restart_at && pos + n > restart_at {
                n = restart_at - pos;
            }
            let end = (pos + n).min(entries.len());
            let batch = &entries[pos..end];
            b.app.raft_store.replicate_to_log(batch).await.map_err(|e| Violation::new(&format!("{}.follower_append", id), format!("replicate_to_log({}..{}) failed: {}", pos + 1, end, e)))?;
            let datas: Vec<(&u64, &rnacos::raft::store::ClientRequest)> = batch.iter().filter_map(|e| match &e.payload { EntryPayload::Normal(nm) => Some((&e.index, &nm.data)), _ => None }).collect();
            if !datas.is_empty() {
                b.app.raft_store.replicate_to_state_machine(&datas).await.map_err(|e| Violation::new(&format!("{}.follower_apply", id), format!("replicate_to_state_machine failed: {}", e)))?;
            }
            pos = end;
            if pos == restart_at && !restarted {
                // path C: start-up replay (snapshot + log up to the recorded applied index), then on through the follower path
                settle().await;
                if cfg.compact_before_restart {
                    let _ = within(30_000, b.app.raft_store.do_log_compaction()).await;
                    sim::count("probe.follower_compacted_before_restart", 1);
                    settle().await;
                }
                stop_node(2).await;
                b = start_node(&root, 2, false, None, &cfg.base.node).await.map_err(|e| Violation::new(&format!("{}.restart_failed", id), e.to_string()))?;
                advance(3_000).await;
                restarted = true;
                sim::count("probe.follower_restarted_mid_log", 1);
            }
        }
        settle().await;
        advance(500).await;
        let mut obs_b = observe(&b, "B").await.map_err(|e| Violation::new(&format!("{}.observe_failed", id), e.to_string()))?;
        let mut waited = 0;
        while obs_b != obs_a && waited < 20 {
            advance(500).await;
            waited += 1;
            obs_b = observe(&b, "B").await.map_err(|e| Violation::new(&format!("{}.observe_failed", id), e.to_string()))?;
        }
        vensure!(obs_a == obs_b, &format!("{}.paths_differ", id), "the node fed through the follower path{} serves something else than the leader that applied the same {} entries: {}", if restarted { " (with a restart in the middle: start-up replay)" } else { "" }, entries.len(), obs_diff(&obs_a, &obs_b));
        digest = obs_digest(&obs_b);
        Ok(())
    }
    .await;
    let info = RunInfo { digest, nontrivial: n_entries >= 10, info: json!({"entries": n_entries, "restarted": restarted}), findings: vec![] };
    for n in live_nodes() {
        kill_node(n.id).await;
    }
    ExecResult { violation: r.err(), info }
}

impl Check for C07 {
    fn id(&self) -> &'static str {
        "C07"
    }
    fn generate(&self, seed: u64, _tier: Tier) -> Value {
        let mut rng = Rng::derive(seed, "C07.gen", 0);
        let mut cfg = C07Cfg::default();
        cfg.base.nodes = 1;
        cfg.base.node.snapshot_log_size = 1_000_000;
        if rng.chance(0.4) {
            cfg.base.disk_p_delay = 0.2;
            cfg.base.disk_max_delay_us = *rng.pick(&[200u64, 5_000]);
        }
        cfg.restart_at_pct = if rng.chance(0.6) { rng.range(5, 95) } else { 0 };
        cfg.compact_before_restart = rng.chance(0.5);
        cfg.max_batch = *rng.pick(&[1u64, 2, 5, 20, 1000]);
        let n = rng.range(5, 80);
        let mut steps = vec![];
        let w = [40u32, 10, 8, 4, 3, 10, 4, 8, 4];
        for _ in 0..n {
            steps.push(gen_wstep(&mut rng, 1, &w));
        }
        // a run of 17..40 consecutive requests to one of the smaller state-machine components (sequence, namespace, user,
        // persistent instance) in some sequences: more than a mailbox's worth of messages for one actor in one follower batch
        let mut rb = Rng::derive(seed, "C07.burst", 0);
        if rb.chance(0.15) {
            let at = rb.below(steps.len() as u64 + 1) as usize;
            let kind = rb.below(4);
            let k = rb.range(17, 40);
            for j in 0..k {
                let st = match kind {
                    0 => if rb.chance(0.5) { WStep::SeqNext { node: 1, key: rb.below(2) as u8, n: 1 } } else { WStep::SeqRange { node: 1, key: rb.below(2) as u8, len: *rb.pick(&[1u8, 50, 100]) } },
                    1 => WStep::NsSet { node: 1, id: (j % 4) as u8, name: rb.below(5) as u8 },
                    2 => if j % 3 == 2 { WStep::UserDel { node: 1, id: (j % 3) as u8 } } else { WStep::UserAdd { node: 1, id: (j % 3) as u8 } },
                    _ => WStep::PInstReg { node: 1, svc: rb.below(2) as u8, ip: (j % 4) as u8, weight: rb.below(5) as u8 },
                };
                steps.insert(at, st);
            }
        }
        // MCP definitions in a third of the sequences (tool definitions that move on while servers refer to older versions,
        // removals that are refused while a definition is in use)
        let mut rm = Rng::derive(seed, "C07.mcp", 0);
        if rm.chance(0.35) {
            for _ in 0..rm.range(3, 12) {
                let at = rm.below(steps.len() as u64 + 1) as usize;
                steps.insert(at, gen_mcp_step(&mut rm, 1));
            }
        }
        json!({"check": "C07", "seed": seed, "cfg": cfg, "steps": steps})
    }
    fn execute(&self, script: Value) -> LocalFut<ExecResult> {
        Box::pin(exec_c07(script))
    }
}

// ---------------------------------------------------------------------------
// C06: 3-node cluster - acknowledged config writes are never lost; nodes converge

pub struct C06;

#[derive(Serialize, Deserialize, Clone, Debug, PartialEq)]
#[serde(tag = "op")]
pub enum XStep {
    /// publish unique content to key `k` through node `node`; the script goes on after `gap_ms`
    Pub { node: u64, k: u8, gap_ms: u64 },
    Del { node: u64, k: u8, gap_ms: u64 },
    Kill { node: u64 },
    Start { node: u64 },
    /// cut a node off in both directions
    Isolate { node: u64 },
    /// cut off whoever is leader now (as seen by the majority)
    IsolateLeader,
    KillLeader,
    OneWay { from: u64, to: u64 },
    Heal,
    /// 0 calm, 1 lossy, 2 duplicating, 3 slow
    Net { mode: u8 },
    Advance { ms: u64 },
}

#[derive(Clone, Debug)]
pub struct OpRec {
    pub step: usize,
    pub key: u8,
    /// None = remove
    pub content: Option<String>,
    pub node: u64,
    pub invoke: u64,
    pub ret: Option<u64>,
    /// Some(true) success, Some(false) error, None = no answer before the client time-out
    pub ok: Option<bool>,
    pub err: String,
}

pub fn c06_key(k: u8) -> (u8, u8, u8) {
    // keys 0,1: publish-only; keys 2,3: publish and remove
    (0, 0, k % 4)
}

fn net_mode(mode: u8) -> NetCfg {
    let mut c = NetCfg::default();
    match mode {
        1 => {
            c.p_drop_req = 0.05;
            c.p_drop_resp = 0.05;
        }
        2 => {
            c.p_dup = 0.15;
        }
        3 => {
            c.p_slow = 0.2;
            c.slow_max_ms = 2500;
        }
        _ => {}
    }
    c
}

pub async fn cluster_up(root: &str, cfg: &NCfg, id: &str) -> VResult<()> {
    let n1 = start_node(root, 1, true, None, &cfg.node).await.map_err(|e| Violation::new("harness.start", e.to_string()))?;
    vensure!(wait_leader(&n1, 20_000).await.is_some(), &format!("{}.setup_no_leader", id), "node 1 did not become leader");
    advance(6_000).await;
    for nid in 2..=cfg.nodes.max(1) {
        start_node(root, nid, false, Some(1), &cfg.node).await.map_err(|e| Violation::new("harness.start", e.to_string()))?;
        advance(4_000).await;
    }
    // the product's own join sequence must have produced the full membership everywhere
    let want: std::collections::BTreeSet<u64> = (1..=cfg.nodes.max(1)).collect();
    let deadline = 40;
    for _ in 0..deadline {
        let mut ok = true;
        for n in live_nodes() {
            let m = metrics(&n);
            let have: std::collections::BTreeSet<u64> = m.membership_config.members.iter().cloned().collect();
            if have != want || m.membership_config.members_after_consensus.is_some() || m.current_leader.is_none() {
                ok = false;
            }
        }
        if ok {
            // default admin user / namespace marker are written by the leader some seconds after start
            advance(12_000).await;
            return Ok(());
        }
        advance(1_000).await;
    }
    let states: Vec<String> = live_nodes().iter().map(|n| { let m = metrics(n); format!("n{}: {:?} leader={:?} members={:?}", n.id, m.state, m.current_leader, m.membership_config.members) }).collect();
    vfail!(&format!("{}.setup_membership", id), "fault-free start-up with the product's own join sequence did not reach membership {:?} on all nodes within 40 simulated s: {}", want, states.join("; "))
}

fn majority_leader() -> Option<u64> {
    let mut votes: BTreeMap<u64, u32> = BTreeMap::new();
    for n in live_nodes() {
        if let Some(l) = metrics(&n).current_leader {
            *votes.entry(l).or_insert(0) += 1;
        }
    }
    votes.into_iter().max_by_key(|(_, c)| *c).map(|(l, _)| l)
}

/// Signature of the recorded async-raft-ext defect "an entry is skipped by the apply path": some node holds a
/// ConfigSet entry at or below its applied index, yet the entry's (unique) content is neither the key's current
/// value nor in the key's change history on that node.
async fn skipped_apply_signature(finals: &[(u64, Obs)], contents: &[(String, String)]) -> Option<String> {
    for (nid, o) in finals {
        let n = match node(*nid) {
            Some(n) => n,
            None => continue,
        };
        let m = metrics(&n);
        let es = match n.app.raft_store.get_log_entries(1, m.last_log_index + 1).await {
            Ok(es) => es,
            Err(_) => continue,
        };
        for (ks, c) in contents {
            let needle = format!("\"{}\"", c);
            if let Some(e) = es.iter().find(|e| e.index <= m.last_applied && crate::rig_l::payload_json(&e.payload).contains(&needle)) {
                let hist = o.hist.get(ks).cloned().unwrap_or_default();
                let cur = o.cfg.get(ks).cloned().flatten().map(|v| v.0);
                if hist.len() < 100 && !hist.iter().any(|h| &h.1 == c) && cur.as_deref() != Some(c.as_str()) {
                    return Some(format!("node {} holds the entry publishing {} to {} at log index {} (term {}), at or below its applied index {}, but neither serves it nor has it in the key's history", nid, c, ks.replace('\u{2}', "|"), e.index, e.term, m.last_applied));
                }
            }
        }
    }
    None
}

/// Wider form of the same signature: a node's state is not what its own log yields. Folding the ConfigSet /
/// ConfigRemove entries up to the node's applied index must give exactly the values it serves; if it does not, entries
/// were skipped or applied twice by the apply path (last_applied moved by a new leader's blank entry). Also: a node
/// whose last_applied lies beyond its own last log index.
async fn log_state_mismatch(finals: &[(u64, Obs)], keys: &[(String, String)]) -> Option<String> {
    use async_raft_ext::raft::EntryPayload;
    use rnacos::raft::store::ClientRequest;
    for (nid, o) in finals {
        let n = match node(*nid) {
            Some(n) => n,
            None => continue,
        };
        let m = metrics(&n);
        if m.last_applied > m.last_log_index {
            return Some(format!("node {} reports last_applied {} beyond its last log index {} (a leader's blank entry moved last_applied past entries the node does not hold)", nid, m.last_applied, m.last_log_index));
        }
        let es = match n.app.raft_store.get_log_entries(1, m.last_log_index + 1).await {
            Ok(es) => es,
            Err(_) => continue,
        };
        if es.first().map(|e| e.index != 1).unwrap_or(true) {
            continue;
        }
        let mut folded: BTreeMap<String, (Option<String>, u64)> = BTreeMap::new();
        for e in es.iter().filter(|e| e.index <= m.last_applied) {
            if let EntryPayload::Normal(nm) = &e.payload {
                match &nm.data {
                    ClientRequest::ConfigSet { key, value, .. } => {
                        folded.insert(key.clone(), (Some(value.as_ref().clone()), e.index));
                    }
                    ClientRequest::ConfigRemove { key } => {
                        folded.insert(key.clone(), (None, e.index));
                    }
                    _ => {}
                }
            }
        }
        for (raft_key, ks) in keys {
            if let Some((want, idx)) = folded.get(raft_key) {
                let cur = o.cfg.get(ks).cloned().flatten().map(|v| v.0);
                if cur != *want {
                    return Some(format!("node {} serves {:?} for {} but its own log, folded up to its applied index {}, yields {:?} (last entry for the key at index {}): an entry was skipped or applied out of order by the apply path", nid, cur, ks, m.last_applied, want, idx));
                }
            }
        }
    }
    None
}

/// Tells the recorded async-raft-ext skipped-apply defect apart from any other way of losing an applied entry. Both forms
/// of the dependency's defect happen at a leader change and skip what the node had not applied yet at that moment: (1) a
/// new leader's blank entry sets last_applied to its own index (core/client.rs: Internal post-commit), (2)
/// update_current_leader clears the follower's cache of received-but-unapplied entries and the next drain starts at the
/// first entry received afterwards (core/append_entries.rs). Either way a skipped entry is one the node held in its log,
/// unapplied, at the moment its raft core changed leader / term / state. A recorder on every incarnation's metrics channel
/// notes each such change with the applied index seen before it and the last log index seen at it. A publish at or below
/// the node's applied index that the node neither serves nor has in the key's history, and that lies in none of those
/// windows, was lost by something else - the product's apply path - and is returned here.
async fn unattributable_skip(finals: &[(u64, Obs)], contents: &[(String, String)]) -> Option<String> {
    use async_raft_ext::raft::EntryPayload;
    use rnacos::raft::store::ClientRequest;
    let changes = leader_changes();
    for (nid, o) in finals {
        let n = match node(*nid) {
            Some(n) => n,
            None => continue,
        };
        let m = metrics(&n);
        let es = match n.app.raft_store.get_log_entries(1, m.last_log_index + 1).await {
            Ok(es) => es,
            Err(_) => continue,
        };
        for e in es.iter().filter(|e| e.index <= m.last_applied) {
            if let EntryPayload::Normal(nm) = &e.payload {
                if let ClientRequest::ConfigSet { value, .. } = &nm.data {
                    // only keys that are never removed: a remove wipes the key's history with it
                    let publish_only: Vec<String> = (0..2u8).map(|k| { let (t, g, d) = c06_key(k); key_str(t, g, d) }).collect();
                    if let Some((ks, c)) = contents.iter().find(|(ks, c)| c == value.as_ref() && publish_only.contains(ks)) {
                        let hist = o.hist.get(ks).cloned().unwrap_or_default();
                        let cur = o.cfg.get(ks).cloned().flatten().map(|v| v.0);
                        let skipped = hist.len() < 100 && !hist.iter().any(|h| &h.1 == c) && cur.as_deref() != Some(c.as_str());
                        if skipped && !changes.iter().any(|ch| ch.node == *nid && ch.applied_before < e.index && e.index <= ch.log_at) {
                            let near: Vec<String> = changes.iter().filter(|ch| ch.node == *nid).map(|ch| format!("term {}: applied {} log {}..{}", ch.term, ch.applied_before, ch.log_before, ch.log_at)).collect();
                            return Some(format!("node {} holds the entry publishing {} to {} at log index {} (term {}), at or below its applied index {}, but neither serves it nor has it in the key's history; the entry was not among those the node held unapplied at any of its leader changes ({}), so it was not lost by the dependency's leader-change defect", nid, c, ks.replace('\u{2}', "|"), e.index, e.term, m.last_applied, near.join("; ")));
                        }
                    }
                }
            }
        }
    }
    None
}

/// Signature of the recorded async-raft-ext defect "conflicting suffix never repaired": a follower still holds an entry
/// of another term at an index where the leader has one.
async fn conflict_signature() -> Option<String> {
    let leader_id = majority_leader()?;
    let ln = node(leader_id)?;
    let lm = metrics(&ln);
    let les = ln.app.raft_store.get_log_entries(1, lm.last_log_index + 1).await.ok()?;
    let lterm: BTreeMap<u64, u64> = les.iter().map(|e| (e.index, e.term)).collect();
    for n in live_nodes() {
        if n.id == leader_id {
            continue;
        }
        let m = metrics(&n);
        if let Ok(es) = n.app.raft_store.get_log_entries(1, m.last_log_index + 1).await {
            if let Some(e) = es.iter().find(|e| lterm.get(&e.index).map(|t| *t != e.term).unwrap_or(false)) {
                return Some(format!("60 simulated s after all faults stopped node {} still holds entry {} of term {} where leader {} has an entry of term {} (its log ends at {}, the leader's at {}): the conflicting suffix is never truncated", n.id, e.index, e.term, leader_id, lterm.get(&e.index).unwrap(), m.last_log_index, lm.last_log_index));
            }
        }
    }
    None
}

pub async fn exec_c06(script: Value) -> ExecResult {
    use std::cell::RefCell;
    use std::rc::Rc as LRc;
    let id = "C06";
    let seed = script["seed"].as_u64().unwrap_or(1);
    let cfg: NCfg = serde_json::from_value(script["cfg"].clone()).unwrap_or_default();
    let steps: Vec<XStep> = match serde_json::from_value(script["steps"].clone()) {
        Ok(s) => s,
        Err(e) => return ExecResult { violation: Some(Violation::new("harness.script", e.to_string())), info: RunInfo::default() },
    };
    tokio::fs::set_cfg(disk_cfg(&cfg));
    tokio::fs::with_disk(|d| {
        d.journal_on = false;
        d.log_ops = false;
    });
    net_reset(seed, cfg.net.clone());
    let root = run_root(seed);
    let recs: LRc<RefCell<Vec<OpRec>>> = LRc::new(RefCell::new(vec![]));
    let uniq = LRc::new(RefCell::new(0u64));
    let mut digest = 0u64;
    let all: Vec<u64> = (1..=cfg.nodes.max(1)).collect();
    let mut down: std::collections::BTreeSet<u64> = Default::default();
    let mut isolated: std::collections::BTreeSet<u64> = Default::default();
    let client_timeout = 20_000u64;
    let tainted = LRc::new(RefCell::new(0u64));
    let direct = LRc::new(RefCell::new(Vec::<String>::new()));
    record_leader_changes();
    let r: VResult<()> = async {
        cluster_up(&root, &cfg, id).await?;
        // the leader and term under which the other members were admitted
        let formation = node(1).map(|n| metrics(&n)).map(|m| (m.current_leader.unwrap_or(0), m.current_term)).unwrap_or((0, 0));
        let mut handles = vec![];
        for (i, st) in steps.iter().enumerate() {
            sim::event(&format!("step {} {}", i, serde_json::to_string(st).unwrap_or_default()));
            match st {
                XStep::Pub { node: nid, k, gap_ms } | XStep::Del { node: nid, k, gap_ms } => {
                    let is_pub = matches!(st, XStep::Pub { .. });
                    let target = match node(*nid) {
                        Some(t) => t,
                        None => {
                            // the client's node is down: connection refused, nothing sent
                            advance(*gap_ms).await;
                            continue;
                        }
                    };
                    let content = if is_pub {
                        let mut u = uniq.borrow_mut();
                        *u += 1;
                        Some(format!("c{}-s{}", *u, i))
                    } else {
                        None
                    };
                    sim::event(&format!("invoke {} n{} k{} {:?}", if is_pub { "pub" } else { "del" }, nid, k, content));
                    let idx = {
                        let mut r = recs.borrow_mut();
                        r.push(OpRec { step: i, key: *k % 4, content: content.clone(), node: *nid, invoke: sim::ev_seq(), ret: None, ok: None, err: String::new() });
                        r.len() - 1
                    };
                    let recs2 = recs.clone();
                    let (t, g, d) = c06_key(*k);
                    let tainted2 = tainted.clone();
                    let direct2 = direct.clone();
                    let via = *nid;
                    let all2 = all.clone();
                    let h = actix_rt::spawn(async move {
                        let cut_at_invoke = is_cut_off(via, &all2);
                        let res = if let Some(c) = content {
                            let req = rnacos::raft::cluster::model::SetConfigReq::new(cfg_key(t, g, d), Arc::new(c));
                            within(client_timeout, target.app.config_route.set_config(req)).await
                        } else {
                            within(client_timeout, target.app.config_route.del_config(rnacos::raft::cluster::model::DelConfigReq::new(cfg_key(t, g, d)))).await
                        };
                        let mut r = recs2.borrow_mut();
                        let rec = &mut r[idx];
                        match res {
                            None => {
                                rec.ok = None;
                            }
                            Some(Ok(())) => {
                                rec.ok = Some(true);
                                // known root cause (see known_findings.jsonl): the leader that admitted the other
                                // members keeps them as non-voters for the rest of its term and commits alone
                                if let Some(l) = node(formation.0) {
                                    let m = metrics(&l);
                                    if m.state == async_raft_ext::State::Leader && m.current_term == formation.1 {
                                        *tainted2.borrow_mut() += 1;
                                    }
                                }
                                if cut_at_invoke && is_cut_off(via, &all2) {
                                    let m = node(via).map(|n| metrics(&n));
                                    direct2.borrow_mut().push(format!("publish/remove through node {} was answered with success while that node was cut off from both other nodes for the whole call (node state {:?}, term {:?}; formation leader/term {:?})", via, m.as_ref().map(|m| m.state), m.as_ref().map(|m| m.current_term), formation));
                                }
                            }
                            Some(Err(e)) => {
                                rec.ok = Some(false);
                                rec.err = e.to_string();
                            }
                        }
                        sim::event(&format!("return op{} {:?}", idx, rec.ok));
                        rec.ret = Some(sim::ev_seq());
                    });
                    handles.push(h);
                    advance(*gap_ms).await;
                }
                XStep::Kill { node: nid } => {
                    // at most a minority is down or cut off at once (the statement's precondition)
                    if node(*nid).is_some() && down.len() + isolated.len() < (all.len() - 1) / 2 + 0 && !down.contains(nid) && !isolated.contains(nid) {
                        kill_node(*nid).await;
                        down.insert(*nid);
                        sim::count("fault.kill", 1);
                    }
                }
                XStep::KillLeader => {
                    if let Some(l) = majority_leader() {
                        if down.len() + isolated.len() < (all.len() - 1) / 2 && node(l).is_some() && !isolated.contains(&l) {
                            kill_node(l).await;
                            down.insert(l);
                            sim::count("fault.kill_leader", 1);
                        }
                    }
                }
                XStep::Start { node: nid } => {
                    if down.contains(nid) {
                        start_node(&root, *nid, *nid == 1, if *nid == 1 { None } else { Some(1) }, &cfg.node).await.map_err(|e| Violation::new(&format!("{}.restart_failed", id), format!("node {} does not start: {}", nid, e)))?;
                        down.remove(nid);
                        sim::count("fault.restart", 1);
                    }
                }
                XStep::Isolate { node: nid } => {
                    if down.len() + isolated.len() < (all.len() - 1) / 2 && !down.contains(nid) && !isolated.contains(nid) {
                        isolate(*nid, &all);
                        isolated.insert(*nid);
                        sim::count("fault.isolate", 1);
                    }
                }
                XStep::IsolateLeader => {
                    if let Some(l) = majority_leader() {
                        if down.len() + isolated.len() < (all.len() - 1) / 2 && !down.contains(&l) && !isolated.contains(&l) {
                            isolate(l, &all);
                            isolated.insert(l);
                            sim::count("fault.isolate_leader", 1);
                        }
                    }
                }
                XStep::OneWay { from, to } => {
                    if down.len() + isolated.len() < (all.len() - 1) / 2 && from != to {
                        partition(*from, *to, false);
                        // a one-way cut can cost a node its leader: count the cut-off side
                        isolated.insert(*to);
                        sim::count("fault.one_way", 1);
                    }
                }
                XStep::Heal => {
                    heal_all();
                    isolated.clear();
                }
                XStep::Net { mode } => {
                    net_set_cfg(net_mode(*mode));
                    sim::count(&format!("fault.net_mode_{}", mode), 1);
                }
                XStep::Advance { ms } => advance(*ms).await,
            }
        }
        // faults stop: heal, calm network, restart what is down, let in-flight client calls end
        heal_all();
        net_set_cfg(net_mode(0));
        for nid in down.clone() {
            start_node(&root, nid, nid == 1, if nid == 1 { None } else { Some(1) }, &cfg.node).await.map_err(|e| Violation::new(&format!("{}.restart_failed", id), format!("node {} does not start: {}", nid, e)))?;
        }
        sim::event("faults stop");
        for h in handles {
            let _ = h.await;
        }
        let recs = recs.borrow().clone();
        // (key, unique content) of every publish of the run, for the skipped-apply signature
        let mut contents: Vec<(String, String)> = recs.iter().filter_map(|r| r.content.clone().map(|c| { let (t, g, d) = c06_key(r.key); (key_str(t, g, d), c) })).collect();
        let mut key_table: Vec<(String, String)> = (0..4u8).map(|k| { let (t, g, d) = c06_key(k); (cfg_key(t, g, d).build_key(), key_str(t, g, d)) }).collect();
        key_table.push((cfg_key(1, 1, 4).build_key(), key_str(1, 1, 4)));
        // (4) bounded liveness: a probe write succeeds and is readable everywhere within 30 simulated s
        let probe_deadline = tokio::time::Instant::now() + std::time::Duration::from_secs(60);
        let mut probe_ok = false;
        let mut last_probe_err = String::new();
        let mut probe_content = String::new();
        let mut attempt = 0;
        while tokio::time::Instant::now() < probe_deadline {
            attempt += 1;
            let n = live_nodes();
            let via = &n[attempt % n.len()];
            probe_content = format!("probe{}", attempt);
            let req = rnacos::raft::cluster::model::SetConfigReq::new(cfg_key(1, 1, 4), Arc::new(probe_content.clone()));
            match within(10_000, via.app.config_route.set_config(req)).await {
                Some(Ok(())) => {
                    probe_ok = true;
                    break;
                }
                Some(Err(e)) => last_probe_err = format!("via node {}: {}", via.id, e),
                None => last_probe_err = format!("via node {}: no answer within 10 s", via.id),
            }
            advance(2_000).await;
        }
        if !probe_ok {
            if let Some(c) = conflict_signature().await {
                vfail!(&format!("{}.conflicting_suffix_never_repaired", id), "{}; meanwhile no node accepts a config write [[{}]]", c, live_nodes().iter().map(|n| { let m = metrics(n); format!("n{}: {:?} term={} leader={:?} last_log={} applied={}", n.id, m.state, m.current_term, m.current_leader, m.last_log_index, m.last_applied) }).collect::<Vec<_>>().join("; "));
            }
        }
        if !probe_ok {
            let mut st = vec![];
            for n in live_nodes() {
                let m = metrics(&n);
                let tail = n.app.raft_store.get_log_entries(m.last_log_index.saturating_sub(3).max(1), m.last_log_index + 1).await.map(|es| es.iter().map(|e| format!("{}:t{}", e.index, e.term)).collect::<Vec<_>>().join(",")).unwrap_or_default();
                st.push(format!("n{}: {:?} term={} leader={:?} last_log={} applied={} members={:?}/{:?} tail=[{}]", n.id, m.state, m.current_term, m.current_leader, m.last_log_index, m.last_applied, m.membership_config.members, m.membership_config.members_after_consensus, tail));
            }
            // signature of the recorded skipped-apply defect of async-raft-ext: a node whose last_applied lies beyond its own
            // last log index (the new leader's blank entry moved last_applied past entries the node does not hold)
            let mut obs_now = vec![];
            for n in live_nodes() {
                if let Ok(o) = observe(&n, "liv").await {
                    obs_now.push((n.id, o));
                }
            }
            if let Some(sig) = log_state_mismatch(&obs_now, &key_table).await {
                if let Some(u) = unattributable_skip(&obs_now, &contents).await {
                    vfail!(&format!("{}.applied_entry_not_served", id), "{}", u);
                }
                vfail!(&format!("{}.entry_skipped_at_leader_change", id), "{}; 60 simulated s after all faults stopped no node accepts a config write [[{}]]", sig, st.join("; "));
            }
            vfail!(&format!("{}.liveness", id), "60 simulated s after all faults stopped (all nodes up, network healed) no node accepts a config write [[{}]] last error: {}", st.join("; "), last_probe_err);
        }
        // (3) convergence within 60 s
        let mut skipped_apply: Option<String> = None;
        let mut last_diff = String::new();
        let mut converged = false;
        let mut finals: Vec<(u64, Obs)> = vec![];
        for _ in 0..60 {
            finals.clear();
            for n in live_nodes() {
                let o = observe(&n, "fin").await.map_err(|e| Violation::new(&format!("{}.observe_failed", id), format!("node {}: {}", n.id, e)))?;
                finals.push((n.id, o));
            }
            let first = &finals[0].1;
            let mut same = true;
            for (nid, o) in &finals[1..] {
                if o.cfg != first.cfg || o.hist != first.hist {
                    same = false;
                    let mut a = first.clone();
                    let mut b = o.clone();
                    a.records.clear();
                    b.records.clear();
                    a.users.clear();
                    b.users.clear();
                    last_diff = format!("node {} vs node {}: {}", finals[0].0, nid, obs_diff(&a, &b));
                }
            }
            let probe_seen = finals.iter().all(|(_, o)| o.cfg.get(&key_str(1, 1, 4)).cloned().flatten().map(|v| v.0 == probe_content).unwrap_or(false));
            if same && probe_seen {
                converged = true;
                break;
            }
            advance(1_000).await;
        }
        if !converged {
            let states: Vec<String> = live_nodes().iter().map(|n| { let m = metrics(n); format!("n{}: {:?} term={} leader={:?} last_log={} applied={} members={:?}", n.id, m.state, m.current_term, m.current_leader, m.last_log_index, m.last_applied, m.membership_config.members) }).collect();
            // root-cause signature of a recorded defect of async-raft-ext 0.6.3 (see known_findings.jsonl):
            // every node has the same log and reports all of it applied, yet the state machines differ -
            // an entry that was not yet applied when the leader changed is skipped (the new leader's initial
            // blank entry moves last_applied past it; followers drop it from their apply cache)
            let mut full = vec![];
            let mut all_applied = true;
            for n in live_nodes() {
                let m = metrics(&n);
                if m.last_applied != m.last_log_index {
                    all_applied = false;
                }
                if let Ok(es) = n.app.raft_store.get_log_entries(1, m.last_log_index + 1).await {
                    full.push(es.iter().map(|e| format!("{}:{}:{}", e.index, e.term, crate::rig_l::payload_json(&e.payload))).collect::<Vec<_>>());
                }
            }
            // (logs compared on their common prefix: a node may be one heartbeat behind)
            let minlen = full.iter().map(|f| f.len()).min().unwrap_or(0);
            let same_logs = full.len() >= 2 && minlen > 0 && full.windows(2).all(|w| w[0][..minlen] == w[1][..minlen]);
            // second signature: a follower still holds entries of an older term at indexes where the
            // leader has entries of a newer term (the conflict answer names the follower's own last index,
            // the leader answers with its own entry at that index, and the exchange repeats for ever)
            let mut conflict_sig: Option<String> = None;
            if let Some(leader_id) = majority_leader() {
                if let Some(ln) = node(leader_id) {
                    let lm = metrics(&ln);
                    if let Ok(les) = ln.app.raft_store.get_log_entries(1, lm.last_log_index + 1).await {
                        let lterm: BTreeMap<u64, u64> = les.iter().map(|e| (e.index, e.term)).collect();
                        for n in live_nodes() {
                            if n.id == leader_id {
                                continue;
                            }
                            let m = metrics(&n);
                            if let Ok(es) = n.app.raft_store.get_log_entries(1, m.last_log_index + 1).await {
                                if let Some(e) = es.iter().find(|e| lterm.get(&e.index).map(|t| *t != e.term).unwrap_or(false)) {
                                    conflict_sig = Some(format!("60 simulated s after all faults stopped node {} still holds entry {} of term {} where leader {} has an entry of term {} (its log ends at {}, the leader's at {}): the conflicting suffix is never truncated", n.id, e.index, e.term, leader_id, lterm.get(&e.index).unwrap(), m.last_log_index, lm.last_log_index));
                                }
                            }
                        }
                    }
                }
            }
            if same_logs && all_applied {
                skipped_apply = Some(format!("all nodes hold the same {} log entries and report them applied, but serve different data: {}", full[0].len(), last_diff));
            }
            if skipped_apply.is_none() {
                contents.push((key_str(1, 1, 4), probe_content.clone()));
                skipped_apply = skipped_apply_signature(&finals, &contents).await.map(|s| format!("{}; {}", s, last_diff));
            }
            if skipped_apply.is_none() {
                skipped_apply = log_state_mismatch(&finals, &key_table).await.map(|s| format!("{}; {}", s, last_diff));
            }
            let mut logs = vec![];
            for n in live_nodes() {
                let last = metrics(&n).last_log_index;
                if let Ok(es) = n.app.raft_store.get_log_entries(last.saturating_sub(6).max(1), last + 1).await {
                    logs.push(format!("n{} log tail: {}", n.id, es.iter().map(|e| format!("{}:t{}:{}", e.index, e.term, serde_json::to_string(&e.payload).unwrap_or_default().chars().take(46).collect::<String>())).collect::<Vec<_>>().join(" | ")));
                }
            }
            if let Some(sk) = &skipped_apply {
                if let Some(u) = unattributable_skip(&finals, &contents).await {
                    vfail!(&format!("{}.applied_entry_not_served", id), "{}", u);
                }
                vfail!(&format!("{}.entry_skipped_at_leader_change", id), "{} [[{}]]", sk, states.join("; "));
            }
            if let Some(c) = &conflict_sig {
                vfail!(&format!("{}.conflicting_suffix_never_repaired", id), "{} [[{}]]", c, states.join("; "));
            }
            vfail!(&format!("{}.diverged", id), "60 simulated s after all faults stopped the nodes still serve different config data: {} [[{}]] [[{}]]", last_diff, states.join("; "), logs.join(" ;; "));
        }
        let fin = &finals[0].1;
        digest = obs_digest(fin);
        // (1) never lost, (2) order - on publish-only keys via the change history
        for k in 0..4u8 {
            let (t, g, d) = c06_key(k);
            let ks = key_str(t, g, d);
            let ops: Vec<&OpRec> = recs.iter().filter(|r| r.key == k).collect();
            let hist: Vec<String> = fin.hist.get(&ks).cloned().unwrap_or_default().into_iter().map(|h| h.1).collect(); // newest first
            let cur = fin.cfg.get(&ks).cloned().flatten().map(|v| v.0);
            if k < 2 {
                for o in &ops {
                    if o.ok == Some(true) {
                        let c = o.content.clone().unwrap_or_default();
                        if !hist.contains(&c) {
                            // signature of the recorded skipped-apply defect: the entry is in the nodes' logs
                            let mut in_logs = 0;
                            let mut total = 0;
                            for n in live_nodes() {
                                total += 1;
                                let m = metrics(&n);
                                if let Ok(es) = n.app.raft_store.get_log_entries(1, m.last_log_index + 1).await {
                                    if es.iter().any(|e| crate::rig_l::payload_json(&e.payload).contains(&format!("\"{}\"", c))) && m.last_applied == m.last_log_index {
                                        in_logs += 1;
                                    }
                                }
                            }
                            if in_logs * 2 > total {
                                if let Some(u) = unattributable_skip(&finals, &contents).await {
                                    vfail!(&format!("{}.applied_entry_not_served", id), "{}", u);
                                }
                                vfail!(&format!("{}.entry_skipped_at_leader_change", id), "publish of {} to key {} (step {}) was answered with success; {} of {} nodes hold the entry in their logs and report it applied, but no node serves it or has it in the key's history", c, ks, o.step, in_logs, total);
                            }
                        }
                        vensure!(hist.contains(&c), &format!("{}.acked_write_lost", id), "publish of {} to key {} through node {} (step {}) was answered with success but the content is in no node's committed history of that key (history, newest first: {:?}; current value {:?})", c, ks, o.node, o.step, hist, cur);
                    }
                }
                // real-time order of acknowledged writes
                for a in &ops {
                    for b in &ops {
                        if a.ok == Some(true) && b.ok == Some(true) && a.ret.is_some() && a.ret.unwrap() < b.invoke {
                            let pa = hist.iter().position(|h| Some(h) == a.content.as_ref());
                            let pb = hist.iter().position(|h| Some(h) == b.content.as_ref());
                            if let (Some(pa), Some(pb)) = (pa, pb) {
                                if pa <= pb {
                                    if let Some(sk) = skipped_apply_signature(&finals, &contents).await {
                                        if let Some(u) = unattributable_skip(&finals, &contents).await {
                                            vfail!(&format!("{}.applied_entry_not_served", id), "{}", u);
                                        }
                                        vfail!(&format!("{}.entry_skipped_at_leader_change", id), "{}", sk);
                                    }
                                    if let Some(sk) = log_state_mismatch(&finals, &key_table).await {
                                        if let Some(u) = unattributable_skip(&finals, &contents).await {
                                            vfail!(&format!("{}.applied_entry_not_served", id), "{}", u);
                                        }
                                        vfail!(&format!("{}.entry_skipped_at_leader_change", id), "{}", sk);
                                    }
                                }
                                vensure!(pa > pb, &format!("{}.order", id), "key {}: publish {} returned before publish {} was invoked, but the committed history has them in the opposite order: {:?}", ks, a.content.clone().unwrap(), b.content.clone().unwrap(), hist);
                            }
                        }
                    }
                }
            }
            // final value: the content (or absence) of an operation that is not overwritten in real time by a later acknowledged one
            let mut allowed: Vec<Option<String>> = vec![];
            for o in &ops {
                if o.ok == Some(false) && o.err.contains("unknown the raft leader") {
                    continue; // refused before anything was sent
                }
                let ret = if o.ok == Some(true) { o.ret.unwrap_or(u64::MAX) } else { u64::MAX };
                let overwritten = ops.iter().any(|p| p.ok == Some(true) && p.invoke > ret);
                if !overwritten {
                    allowed.push(o.content.clone());
                }
            }
            if !ops.iter().any(|o| o.ok == Some(true)) {
                allowed.push(None);
            }
            if !allowed.contains(&cur) {
                if let Some(sk) = skipped_apply_signature(&finals, &contents).await {
                    if let Some(u) = unattributable_skip(&finals, &contents).await {
                        vfail!(&format!("{}.applied_entry_not_served", id), "{}", u);
                    }
                    vfail!(&format!("{}.entry_skipped_at_leader_change", id), "{}", sk);
                }
                if let Some(sk) = log_state_mismatch(&finals, &key_table).await {
                    if let Some(u) = unattributable_skip(&finals, &contents).await {
                        vfail!(&format!("{}.applied_entry_not_served", id), "{}", u);
                    }
                    vfail!(&format!("{}.entry_skipped_at_leader_change", id), "{}", sk);
                }
            }
            vensure!(allowed.contains(&cur), &format!("{}.final_value", id), "key {} finally holds {:?}, which is not the value of any operation that could be the last one (candidates {:?}; operations: {:?})", ks, cur, allowed, ops.iter().map(|o| (o.step, o.content.clone(), o.ok, o.invoke, o.ret)).collect::<Vec<_>>());
        }
        let n_ok = recs.iter().filter(|r| r.ok == Some(true)).count();
        let n_err = recs.iter().filter(|r| r.ok == Some(false)).count();
        let n_to = recs.iter().filter(|r| r.ok.is_none()).count();
        sim::count("ops.success", n_ok as u64);
        sim::count("ops.error", n_err as u64);
        sim::count("ops.no_answer", n_to as u64);
        Ok(())
    }
    .await;
    let nrec = recs.borrow().len();
    let mut findings = vec![];
    let mut violation = r.err();
    let tainted_n = *tainted.borrow();
    sim::count("probe.acks_by_formation_term_leader", tainted_n);
    // a success answered by a node that was cut off from everybody: direct evidence of a commit without quorum
    let direct_v = direct.borrow().clone();
    if !direct_v.is_empty() {
        sim::count("probe.ack_while_cut_off", direct_v.len() as u64);
    }
    if violation.as_ref().map(|v| v.clause == "C06.conflicting_suffix_never_repaired").unwrap_or(false) {
        sim::count("probe.conflicting_suffix_never_repaired", 1);
        let v = violation.take().unwrap();
        findings.push(v);
    }
    if violation.as_ref().map(|v| v.clause == "C06.entry_skipped_at_leader_change").unwrap_or(false) {
        sim::count("probe.entry_skipped_at_leader_change", 1);
        let v = violation.take().unwrap();
        findings.push(v);
    }
    if tainted_n > 0 {
        // consequences of the recorded root cause are reported under its clause, everything else stays a violation
        let consequence = violation.as_ref().map(|v| matches!(v.clause.as_str(), "C06.diverged" | "C06.acked_write_lost" | "C06.final_value" | "C06.order")).unwrap_or(false);
        if consequence || !direct_v.is_empty() {
            let v = violation.take();
            findings.push(Violation::new("C06.formation_leader_commits_without_quorum", format!("the leader that admitted nodes 2 and 3 (still in the term of the cluster formation) acknowledged {} write(s) on its own; {}{}", tainted_n, direct_v.first().cloned().unwrap_or_default(), v.map(|v| format!(" consequence: {}: {}", v.clause, v.msg)).unwrap_or_default())));
        }
    } else if let (None, Some(d)) = (&violation, direct_v.first()) {
        violation = Some(Violation::new("C06.commit_without_quorum", d.clone()));
    }
    let info = RunInfo { digest, nontrivial: nrec >= 5, info: json!({"ops": nrec, "tainted": tainted_n}), findings };
    for n in live_nodes() {
        kill_node(n.id).await;
    }
    ExecResult { violation, info }
}

/// true when `id` can currently neither send to nor receive from any other node
pub fn is_cut_off(id: u64, all: &[u64]) -> bool {
    NET.with(|n| {
        let n = n.borrow();
        all.iter().filter(|o| **o != id).all(|o| n.blocked.contains(&(id, *o)) && n.blocked.contains(&(*o, id)))
    })
}

impl Check for C06 {
    fn id(&self) -> &'static str {
        "C06"
    }
    fn generate(&self, seed: u64, _tier: Tier) -> Value {
        let mut rng = Rng::derive(seed, "C06.gen", 0);
        let mut cfg = NCfg::default();
        cfg.nodes = 3;
        // no compaction during these runs: a follower that needs a snapshot while the leader's snapshot
        // policy is not met makes async-raft spin without yielding to time (covered by C08)
        cfg.node.snapshot_log_size = 10_000;
        if rng.chance(0.3) {
            cfg.disk_p_delay = 0.2;
            cfg.disk_max_delay_us = *rng.pick(&[200u64, 5_000]);
        }
        let faulty = rng.chance(0.8);
        let n = rng.range(10, 60);
        let mut steps = vec![];
        if rng.chance(0.7) {
            // an early leader change: afterwards the leader tracks the other members as voters
            steps.push(XStep::IsolateLeader);
            steps.push(XStep::Advance { ms: 8000 });
            steps.push(XStep::Heal);
            steps.push(XStep::Advance { ms: 4000 });
        }
        for _ in 0..n {
            let r = rng.below(100);
            let gap = *rng.pick(&[0u64, 0, 5, 50, 300, 1500]);
            let st = if r < 55 {
                XStep::Pub { node: rng.range(1, 3), k: rng.below(4) as u8, gap_ms: gap }
            } else if r < 62 {
                XStep::Del { node: rng.range(1, 3), k: 2 + rng.below(2) as u8, gap_ms: gap }
            } else if !faulty {
                XStep::Advance { ms: *rng.pick(&[10u64, 500, 3000]) }
            } else if r < 67 {
                XStep::KillLeader
            } else if r < 71 {
                XStep::Kill { node: rng.range(1, 3) }
            } else if r < 78 {
                XStep::Start { node: rng.range(1, 3) }
            } else if r < 82 {
                XStep::IsolateLeader
            } else if r < 85 {
                XStep::Isolate { node: rng.range(1, 3) }
            } else if r < 87 {
                XStep::OneWay { from: rng.range(1, 3), to: rng.range(1, 3) }
            } else if r < 92 {
                XStep::Heal
            } else if r < 95 {
                XStep::Net { mode: rng.below(4) as u8 }
            } else {
                XStep::Advance { ms: *rng.pick(&[10u64, 500, 3000, 8000]) }
            };
            steps.push(st);
        }
        json!({"check": "C06", "seed": seed, "cfg": cfg, "steps": steps})
    }
    fn execute(&self, script: Value) -> LocalFut<ExecResult> {
        Box::pin(exec_c06(script))
    }
}

// ---------------------------------------------------------------------------
// C08: a node caught up by snapshot install serves the same data as the leader

pub struct C08;

#[derive(Serialize, Deserialize, Clone, Debug, Default)]
pub struct C08Cfg {
    pub base: NCfg,
    /// 0: the follower is started only after the leader compacted; 1: it was up, then cut off / killed before the compaction
    pub scenario: u8,
    /// in scenario 1: true = killed, false = isolated
    pub kill: bool,
    /// number of steps executed before the follower goes away (scenario 1)
    pub before: usize,
    pub restart_follower_at_end: bool,
    /// quiet cluster: the leader's snapshot covers its whole log when the follower connects and nobody writes afterwards, so
    /// the follower's entire state comes from the installed snapshot; it is then restarted
    #[serde(default)]
    pub quiet: bool,
    /// kill the follower on its n-th InstallSnapshot message (0 = never), before (false) or after (true) it has handled
    /// it, and start it again after the given delay: an interrupted snapshot transfer that the leader resumes / repeats
    #[serde(default)]
    pub kill_on_snapshot_msg: u64,
    #[serde(default)]
    pub kill_after_handling: bool,
    #[serde(default)]
    pub restart_delay_ms: u64,
    /// a third node that stays up throughout, so that the leader keeps a majority while the follower is away
    #[serde(default)]
    pub third_node: bool,
    /// scenario 1: simulated ms that pass before the follower goes away, so that the writes made until then have reached it
    /// (the workload's writes take no simulated time on the leader; without a pause the follower leaves with an empty state)
    #[serde(default)]
    pub pause_before_away_ms: u64,
    /// scenario 1 with a third node: node 1 is stopped and started again before the follower comes back. A leader that was
    /// up all the time holds every entry the follower missed in its replication stream's buffer and never needs the
    /// snapshot; after a restart (node 1 or node 3 leads then) the stream starts from storage, where the entries are compacted
    #[serde(default)]
    pub leader_restart_before_connect: bool,
}

/// Recorded defects that a kill of the follower inside an InstallSnapshot transfer can expose (each with the evidence that
/// tells it apart): (a) the follower had answered a data chunk whose bytes had not reached the OS when it was killed - no
/// non-empty snapshot file existed at the kill; (b) the follower had completed the installation when it was killed, the
/// leader never saw the answer and sends the final (empty, done) chunk again, and the restarted follower - whose raft core has
/// no transfer in progress - accepts it as a complete new snapshot: an empty snapshot file with an id above every snapshot
/// file that existed at the kill. Returns (clause suffix, text).
fn kill_in_transfer_finding(cfg: &C08Cfg, root: &str) -> Option<(&'static str, String)> {
    if cfg.kill_on_snapshot_msg == 0 || !msg_trigger_fired() {
        return None;
    }
    let at_kill = msg_trigger_files_at_kill();
    let snap_id = |n: &str| n.strip_prefix("snapshot_").and_then(|x| x.parse::<u64>().ok());
    let max_nonempty_at_kill = at_kill.iter().filter(|(n, l)| *l > 0).filter_map(|(n, _)| snap_id(n)).max();
    let now: Vec<(String, u64)> = tokio::fs::list_files(&format!("{}/n2/", root)).iter().map(|(n, l)| (n.rsplit('/').next().unwrap_or("").to_string(), *l as u64)).collect();
    if cfg.kill_after_handling && max_nonempty_at_kill.is_none() {
        return Some(("snapshot_chunk_acked_before_durable", format!("the follower was killed right after it had answered an InstallSnapshot chunk whose bytes had not reached the OS (files at the kill: {:?}); the leader went on with the next chunk and the restarted follower completed the transfer without the lost bytes (files now: {:?})", at_kill, now)));
    }
    if let Some(k) = max_nonempty_at_kill {
        if let Some((n, _)) = now.iter().find(|(n, l)| *l == 0 && snap_id(n).map(|j| j > k).unwrap_or(false)) {
            return Some(("repeated_final_chunk_installs_empty_snapshot", format!("the follower was killed after it had received the whole snapshot (files at the kill: {:?}); the leader, which never saw the answer, sent the final empty chunk again and the restarted follower installed it as a complete snapshot: {} has 0 bytes (files now: {:?})", at_kill, n, now)));
        }
    }
    None
}

/// Observation with repeated history entries (same id and content twice in one key's history) removed, and the raw
/// config records of those keys left out. Returns the keys that had repetitions.
fn without_repeated_history(o: &Obs) -> (Obs, Vec<String>) {
    let mut o = o.clone();
    let mut keys = vec![];
    for (k, h) in o.hist.iter_mut() {
        let mut seen = std::collections::BTreeSet::new();
        let before = h.len();
        h.retain(|e| seen.insert((e.0, e.1.clone())));
        if h.len() != before {
            keys.push(k.clone());
        }
    }
    // MCP servers: a re-applied "create / update and release" lists the released value twice
    let mut mcp_changed = false;
    for (k, v) in o.mcp.iter_mut() {
        let mut j: serde_json::Value = serde_json::from_str(v).unwrap_or(serde_json::Value::Null);
        let cur_id = j.get("currentValue").or_else(|| j.get("current_value")).and_then(|c| c.get("id")).and_then(|x| x.as_u64()).unwrap_or(u64::MAX);
        let mut changed = false;
        if let Some(h) = j.get_mut("histories").and_then(|h| h.as_array_mut()) {
            let mut seen = std::collections::BTreeSet::new();
            let before = h.len();
            h.retain(|e| {
                let id = e.get("id").and_then(|x| x.as_u64()).unwrap_or(0);
                id != cur_id && seen.insert(id)
            });
            changed = h.len() != before;
        }
        if changed {
            for rk in ["releaseValue", "release_value"] {
                if let Some(r) = j.get_mut(rk).and_then(|r| r.as_object_mut()) {
                    r.remove("id");
                }
            }
            keys.push(format!("mcp {}", k));
            mcp_changed = true;
            *v = j.to_string();
        }
    }
    if mcp_changed {
        o.records.retain(|r| !r.0.contains("MCP_SERVER"));
    }
    (o, keys)
}

/// What the follower serves beyond what the leader serves, when that is the ONLY difference: records, config keys,
/// namespaces, users and listing entries whose identity the leader does not have at all. None when anything else differs.
fn stale_extras(leader: &Obs, follower: &Obs) -> Option<Vec<String>> {
    let mut f = follower.clone();
    let mut extras = vec![];
    let lkeys: std::collections::BTreeSet<(String, Vec<u8>)> = leader.records.iter().map(|r| (r.0.clone(), r.1.clone())).collect();
    f.records.retain(|r| {
        let keep = lkeys.contains(&(r.0.clone(), r.1.clone()));
        if !keep {
            extras.push(format!("{}/{}", r.0, String::from_utf8_lossy(&r.1)));
        }
        keep
    });
    let stale_cfg: Vec<String> = f.cfg.iter().filter(|(k, v)| v.is_some() && leader.cfg.get(*k).map(|lv| lv.is_none()).unwrap_or(true)).map(|(k, _)| k.clone()).collect();
    for k in stale_cfg {
        extras.push(format!("config {}", k));
        f.cfg.insert(k.clone(), None);
        match leader.hist.get(&k) {
            Some(h) => {
                f.hist.insert(k.clone(), h.clone());
            }
            None => {
                f.hist.remove(&k);
            }
        }
    }
    // a key removed on the leader while the follower was away and published again later: the follower's stale copy survived
    // the install (the snapshot did not contain the key at that moment) and the later publishes were applied on top of it -
    // same value, and the leader's history (newest first) followed by older entries only the follower has
    let mut drop_records: Vec<String> = vec![];
    for (k, lv) in leader.cfg.iter() {
        if let (Some(lv), Some(Some(fv))) = (lv, f.cfg.get(k).cloned()) {
            // (content and md5 are the later publishes'; type and description are kept from the stale copy when the later
            // publishes do not name them)
            if lv.0 != fv.0 || lv.1 != fv.1 {
                continue;
            }
            let (lh, fh) = (leader.hist.get(k).cloned().unwrap_or_default(), f.hist.get(k).cloned().unwrap_or_default());
            if fh.len() > lh.len() && !lh.is_empty() && fh[..lh.len()] == lh[..] && fh[lh.len()..].iter().all(|e| e.0 < lh.last().map(|x| x.0).unwrap_or(0)) {
                extras.push(format!("older history entries {:?} of config {}", fh[lh.len()..].iter().map(|e| e.0).collect::<Vec<_>>(), k));
                f.hist.insert(k.clone(), lh);
                f.cfg.insert(k.clone(), Some(lv.clone()));
                drop_records.push(k.clone());
            }
        }
    }
    let mut l2 = leader.clone();
    if !drop_records.is_empty() {
        // the raw records of those keys carry the history as well
        let raw: Vec<Vec<u8>> = drop_records.iter().filter_map(|k| { let p: Vec<&str> = k.split('|').collect(); if p.len() == 3 { Some(rnacos::config::core::ConfigKey::new(p[2], p[1], p[0]).build_key().into_bytes()) } else { None } }).collect();
        f.records.retain(|r| !(r.0 == "T_CONFIG" && raw.contains(&r.1)));
        l2.records.retain(|r| !(r.0 == "T_CONFIG" && raw.contains(&r.1)));
    }
    let leader = &l2;
    f.ns.retain(|x| leader.ns.iter().any(|l| l.0 == x.0));
    // a user namespace removed on the leader whose tenant still holds configurations: the leader lists it as a weak
    // namespace (named after its id, no USER flag), the follower still as the user namespace it was (entries are "name#flags")
    let flags = |v: &str| v.rsplit('#').next().and_then(|x| x.parse::<u32>().ok()).unwrap_or(0);
    for x in f.ns.iter_mut() {
        if let Some(l) = leader.ns.iter().find(|l| l.0 == x.0) {
            if l.1 != x.1 && flags(&l.1) & 2 == 0 && flags(&x.1) & 2 != 0 && l.1.starts_with(&format!("{}#", l.0)) {
                extras.push(format!("user namespace {} ({})", x.0, x.1));
                x.1 = l.1.clone();
            }
        }
    }
    f.users.retain(|x| leader.users.iter().any(|l| l.0 == x.0));
    f.listing.retain(|x| leader.listing.contains(x));
    // (MCP servers / tool definitions removed on the leader: their records are among the extras above)
    f.mcp.retain(|x| leader.mcp.iter().any(|l| l.0 == x.0));
    if f == *leader && !extras.is_empty() {
        Some(extras)
    } else {
        None
    }
}

/// Signature of a recorded defect of the dependency's replication stream (C08.replication_stuck_below_compacted_log): the
/// follower's log has not moved for 10 simulated s although the leader is well ahead, and the leader no longer holds the
/// entry the follower needs next (its log was compacted past it) - `get_log_entries` answers the compacted range with an
/// empty list, async-raft-ext's line-rate stream front-loads nothing, sends its buffered later entries with a gap, the
/// follower's store refuses them, and the stream repeats that once per heartbeat for ever instead of sending a snapshot.
async fn replication_stuck_signature(n1: &NodeH, n2: &NodeH) -> Option<String> {
    let (m1, m2) = (metrics(n1), metrics(n2));
    let f_next = m2.last_log_index + 1;
    if m1.last_log_index < f_next + 5 {
        return None;
    }
    let es = n1.app.raft_store.get_log_entries(f_next, f_next + 1).await.ok()?;
    if !es.is_empty() {
        return None;
    }
    advance(10_000).await;
    let n2b = node(2)?;
    let m2b = metrics(&n2b);
    if m2b.last_log_index != m2.last_log_index || n2b.epoch != n2.epoch {
        return None;
    }
    let lsnap = n1.app.raft_store.get_current_snapshot().await.ok().flatten().map(|s| s.index);
    Some(format!("after a snapshot transfer that was interrupted by a kill of the follower and then completed, the follower stays at log index {} (state {:?}) while the leader is at {} (snapshot {:?}); the leader no longer holds entry {} and its replication stream keeps sending later entries the follower must refuse, once per heartbeat, instead of a snapshot", m2.last_log_index, m2b.state, m1.last_log_index, lsnap, f_next))
}

/// The config history-id block end (`T_SEQUENCE/SEQ_CONFIG`) is not replicated state: the leader's value moves with every
/// publish it *accepts* (ids are drawn before the raft proposal, so a publish that fails to commit burns ids), a follower's
/// only with block markers it applies. C08's statement is about configuration, namespace and user data: the leader/follower
/// comparison leaves the record out when the follower's value is below the leader's. Whether ids are ever issued twice
/// (what a mark that is too low on a future leader would lead to) is C19's statement and checked there.
fn without_cfg_seq_mark(l: &Obs, f: &Obs) -> (Obs, Obs) {
    let val = |o: &Obs| o.records.iter().find(|r| r.0 == "T_SEQUENCE" && r.1 == b"SEQ_CONFIG").map(|r| r.2.iter().fold(0u64, |a, b| (a << 8) | *b as u64));
    let (vl, vf) = (val(l), val(f));
    let (mut l2, mut f2) = (l.clone(), f.clone());
    if let (Some(vl), Some(vf)) = (vl, vf) {
        if vf < vl {
            sim::count("probe.leader_history_id_mark_ahead_of_follower", 1);
            l2.records.retain(|r| !(r.0 == "T_SEQUENCE" && r.1 == b"SEQ_CONFIG"));
            f2.records.retain(|r| !(r.0 == "T_SEQUENCE" && r.1 == b"SEQ_CONFIG"));
        }
    }
    (l2, f2)
}

pub async fn exec_c08(script: Value) -> ExecResult {
    let id = "C08";
    let seed = script["seed"].as_u64().unwrap_or(1);
    let cfg: C08Cfg = serde_json::from_value(script["cfg"].clone()).unwrap_or_default();
    let steps: Vec<WStep> = match serde_json::from_value(script["steps"].clone()) {
        Ok(s) => s,
        Err(e) => return ExecResult { violation: Some(Violation::new("harness.script", e.to_string())), info: RunInfo::default() },
    };
    tokio::fs::set_cfg(disk_cfg(&cfg.base));
    tokio::fs::with_disk(|d| {
        d.journal_on = false;
        d.log_ops = false;
    });
    net_reset(seed, cfg.base.net.clone());
    install_spin_tap();
    let root = run_root(seed);
    let mut digest = 0u64;
    let mut installed = false;
    let mut findings = vec![];
    let body = async {
        let mut n1 = start_node(&root, 1, true, None, &cfg.base.node).await.map_err(|e| Violation::new("harness.start", e.to_string()))?;
        vensure!(wait_leader(&n1, 20_000).await.is_some(), &format!("{}.setup_no_leader", id), "node 1 did not become leader");
        advance(16_000).await;
        let mut m = WModel::default();
        // a background client writes (to its own key) only while the needs-snapshot loop runs
        let n1c = n1.clone();
        actix_rt::spawn(async move {
            let mut bm = WModel::default();
            bm.uniq = 5_000_000;
            loop {
                wait_spin().await;
                let st = WStep::CfgSet { node: 1, t: 2, g: 1, d: 4, size: 5, same: false, typ: 0, desc: 0 };
                let _ = do_step(&n1c, &st, &mut bm, 10_000).await;
                tokio::task::yield_now().await;
            }
        });
        if cfg.third_node {
            start_node(&root, 3, false, Some(1), &cfg.base.node).await.map_err(|e| Violation::new("harness.start", e.to_string()))?;
            advance(6_000).await;
        }
        if cfg.scenario == 1 {
            start_node(&root, 2, false, Some(1), &cfg.base.node).await.map_err(|e| Violation::new("harness.start", e.to_string()))?;
            advance(6_000).await;
        }
        for (i, st) in steps.iter().enumerate() {
            if cfg.scenario == 1 && i == cfg.before.min(steps.len() - 1) {
                if cfg.pause_before_away_ms > 0 {
                    advance(cfg.pause_before_away_ms).await;
                    if let Some(f) = node(2) {
                        if metrics(&f).last_applied + 1 >= metrics(&n1).last_applied && i > 0 {
                            sim::count("probe.follower_left_with_replicated_state", 1);
                        }
                    }
                }
                if cfg.kill {
                    kill_node(2).await;
                } else {
                    isolate(2, &[1, 2, 3]);
                }
                sim::count(if cfg.kill { "fault.kill" } else { "fault.isolate" }, 1);
            }
            let out = do_step(&n1, st, &mut m, 30_000).await;
            if let OpOutcome::Timeout = out {
                vfail!(&format!("{}.op_hang", id), "step {} {:?} did not answer on the leader", i, st);
            }
        }
        settle().await;
        advance(1_000).await;
        if cfg.quiet {
            // top up with single writes until a compaction has covered the whole log
            for _ in 0..(cfg.base.node.snapshot_log_size * 2 + 4) {
                let snap = match n1.app.raft_store.get_current_snapshot().await { Ok(Some(s)) => s.index, _ => 0 };
                if snap > 0 && snap == metrics(&n1).last_log_index {
                    sim::count("probe.quiet_snapshot_covers_log", 1);
                    break;
                }
                let st = WStep::CfgSet { node: 1, t: 2, g: 1, d: 3, size: 10, same: false, typ: 0, desc: 0 };
                let _ = do_step(&n1, &st, &mut m, 10_000).await;
                settle().await;
                advance(200).await;
            }
        }
        if cfg.leader_restart_before_connect && cfg.third_node && cfg.scenario == 1 {
            advance(500).await;
            stop_node(1).await;
            advance(300).await;
            n1 = start_node(&root, 1, true, None, &cfg.base.node).await.map_err(|e| Violation::new(&format!("{}.restart_failed", id), e.to_string()))?;
            vensure!(wait_leader(&n1, 30_000).await.is_some(), &format!("{}.setup_no_leader", id), "no leader among nodes 1 and 3 after node 1 was restarted");
            advance(3_000).await;
            sim::count("probe.leader_restarted_before_follower_returns", 1);
        }
        let snap_before = match n1.app.raft_store.get_current_snapshot().await { Ok(Some(s)) => s.index, _ => 0 };
        if cfg.kill_on_snapshot_msg > 0 {
            set_msg_trigger("RaftSnapshotRequest", 2, cfg.kill_on_snapshot_msg, cfg.kill_after_handling);
            let (root2, ncfg, delay) = (root.clone(), cfg.base.node.clone(), cfg.restart_delay_ms);
            actix_rt::spawn(async move {
                loop {
                    tokio::time::sleep(std::time::Duration::from_millis(50)).await;
                    if msg_trigger_fired() && node(2).is_none() {
                        tokio::time::sleep(std::time::Duration::from_millis(delay)).await;
                        let _ = start_node(&root2, 2, false, Some(1), &ncfg).await;
                        sim::count("probe.follower_restarted_inside_snapshot_transfer", 1);
                        break;
                    }
                }
            });
        }
        if std::env::var("RNSIM_C08_DEBUG").is_ok() {
            if let Some(f) = node(2) {
                eprintln!("dbg before connect: follower (log,applied)={:?} K={:?} leader (log,applied,snap)={:?}", (metrics(&f).last_log_index, metrics(&f).last_applied), cfg_get(&f, cfg_key(0, 1, 2)).await.ok().flatten().map(|x| x.0), (metrics(&n1).last_log_index, metrics(&n1).last_applied, snap_before));
                let es = n1.app.raft_store.get_log_entries(1, metrics(&n1).last_log_index + 1).await.unwrap_or_default();
                eprintln!("dbg leader log holds {} entries, first {:?}", es.len(), es.first().map(|e| e.index));
                for a in [10u64, 15, 16, 50, 90] {
                    let es = n1.app.raft_store.get_log_entries(a, metrics(&n1).last_log_index + 1).await.unwrap_or_default();
                    eprintln!("dbg leader get_log_entries({}, end) -> {} entries, first {:?}", a, es.len(), es.first().map(|e| e.index));
                }
            }
        }
        // connect the follower
        if cfg.scenario == 0 || cfg.kill {
            start_node(&root, 2, false, Some(1), &cfg.base.node).await.map_err(|e| Violation::new("harness.start", e.to_string()))?;
        } else {
            heal_all();
        }
        let term_at_connect = metrics(&n1).current_term;
        sim::event("follower connected");
        if std::env::var("RNSIM_C08_DEBUG").is_ok() {
            actix_rt::spawn(async move {
                let mut last = String::new();
                for _ in 0..3000 {
                    tokio::time::sleep(std::time::Duration::from_millis(2)).await;
                    if let Some(f) = node(2) {
                        let k = cfg_get(&f, cfg_key(0, 1, 2)).await.ok().flatten().map(|x| x.0);
                        let cur = format!("K={:?} (log,applied)={:?} snap={:?}", k, (metrics(&f).last_log_index, metrics(&f).last_applied), f.app.raft_store.get_current_snapshot().await.ok().flatten().map(|s| s.index));
                        if cur != last {
                            eprintln!("dbg t={} {}", sim::now_us() / 1000, cur);
                            last = cur;
                        }
                    }
                }
            });
        }
        // a leader whose snapshot policy is not met answers a follower that needs a snapshot in a tight loop
        // (no simulated time passes); writes arriving meanwhile let it compact. A client keeps writing.
        let n1b = n1.clone();
        let thr = cfg.base.node.snapshot_log_size;
        let mut extra = std::mem::take(&mut m);
        extra.uniq += 1_000_000;
        let quiet = cfg.quiet;
        let writer = actix_rt::spawn(async move {
            let mut mm = extra;
            if quiet {
                return mm;
            }
            // keep writing until the follower has (nearly) the leader's log, at most 40 x threshold writes
            for j in 0..(thr * 40 + 40) {
                let st = WStep::CfgSet { node: 1, t: 2, g: 1, d: 3, size: 10, same: false, typ: 0, desc: 0 };
                let _ = do_step(&n1b, &st, &mut mm, 10_000).await;
                // one write every 100 simulated ms - or at once while the leader is in the needs-snapshot loop
                sleep_or_spin(100).await;
                if j >= 3 {
                    if let Some(f) = node(2) {
                        let (lf, ll) = (metrics(&f).last_log_index, metrics(&n1b).last_log_index);
                        if lf + 3 >= ll {
                            break;
                        }
                    }
                }
            }
            mm
        });
        m = writer.await.map_err(|e| Violation::new("harness.writer", e.to_string()))?;

        // within 60 simulated s, and WITHOUT restarting it, the follower serves what the leader serves
        let mut ok = false;
        let mut last = String::new();
        let mut obs_l = observe(&n1, "L").await.map_err(|e| Violation::new(&format!("{}.observe_failed", id), e.to_string()))?;
        let mut last_f: Option<Obs> = None;
        for _ in 0..60 {
            advance(1_000).await;
            let n2 = match node(2) {
                Some(n) => n,
                None => continue,
            };
            obs_l = observe(&n1, "L").await.map_err(|e| Violation::new(&format!("{}.observe_failed", id), e.to_string()))?;
            let obs_f = observe(&n2, "F").await.map_err(|e| Violation::new(&format!("{}.observe_failed", id), e.to_string()))?;
            let (obs_l2, obs_f) = without_cfg_seq_mark(&obs_l, &obs_f);
            obs_l = obs_l2;
            if let Ok(Some(s)) = n2.app.raft_store.get_current_snapshot().await {
                if s.index > 0 {
                    installed = true;
                }
            }
            if std::env::var("RNSIM_C08_DEBUG").is_ok() {
                eprintln!("dbg t={} follower cfg present: {:?} | leader: {:?} | m2 {:?}", sim::now_us() / 1000, obs_f.cfg.iter().filter(|(_, v)| v.is_some()).map(|(k, _)| k.clone()).collect::<Vec<_>>(), obs_l.cfg.iter().filter(|(_, v)| v.is_some()).map(|(k, _)| k.clone()).collect::<Vec<_>>(), (metrics(&n2).last_log_index, metrics(&n2).last_applied));
            }
            if obs_l == obs_f {
                ok = true;
                break;
            }
            last = obs_diff(&obs_l, &obs_f);
            last_f = Some(obs_f);
        }
        // the background client's key is exempt from the model (whatever the leader serves is the model); so is the key of the
        // client that writes while the follower catches up when the term changed meanwhile (a follower that was cut off
        // returns with a higher term and forces an election; what async-raft-ext does to writes in flight then is C06's matter)
        let mut exempt = vec![key_str(2, 1, 4)];
        if metrics(&n1).current_term != term_at_connect {
            exempt.push(key_str(2, 1, 3));
            sim::count("probe.election_while_follower_catches_up", 1);
        }
        // (after a restart of node 1 the leader may be node 3; node 1 then applies an acknowledged write a moment later)
        let lead_id = metrics(&n1).current_leader.unwrap_or(1);
        let obs_model = match node(lead_id) {
            Some(ld) if lead_id != 1 => observe(&ld, "L3").await.map_err(|e| Violation::new(&format!("{}.observe_failed", id), e.to_string()))?,
            _ => obs_l.clone(),
        };
        for bk in exempt {
            match obs_model.cfg.get(&bk).cloned().flatten() {
                Some(v) => {
                    let mut h: Vec<String> = obs_model.hist.get(&bk).cloned().unwrap_or_default().into_iter().map(|x| x.1).collect();
                    h.reverse();
                    m.cfg.insert(bk, CfgModelEntry { content: v.0, typ: v.2, desc: v.3, history: h });
                }
                None => {
                    m.cfg.remove(&bk);
                }
            }
        }
        check_cfg_model(id, &obs_model, &m, "leader")?;
        // (the follower's own compaction gives it a snapshot as well: what counts is a transfer from the leader)
        installed = installed && sim::counter("net.snapshot_chunks_to_n2") > 0;
        if installed {
            sim::count("probe.snapshot_installed_on_follower", 1);
            if cfg.scenario == 1 {
                sim::count("probe.snapshot_installed_on_follower_with_state", 1);
            }
        }
        let n2 = node(2).ok_or_else(|| Violation::new("harness.node", "follower missing"))?;
        let m2 = metrics(&n2);
        let m1 = metrics(&n1);
        if cfg.kill_on_snapshot_msg > 0 {
            // signature of a recorded defect (see known_findings.jsonl): after an interrupted snapshot transfer the leader's
            // replication stream runs at line rate with entries the follower cannot append, and never falls back to a snapshot
            if let Some(sig) = replication_stuck_signature(&n1, &n2).await {
                sim::count("probe.replication_stuck_below_compacted_log", 1);
                findings.push(Violation::new(&format!("{}.replication_stuck_below_compacted_log", id), sig));
                return Ok(());
            }
        }
        // a kill right after the follower answered a snapshot chunk, while the chunk's bytes had not reached the OS: the resumed
        // transfer then completes a snapshot without them (recorded defect: the chunk is acknowledged before it is durable)
        // the snapshot header's index is taken while later applies are in flight (recorded defect F12, see C01): the follower
        // then applies, on top of the installed snapshot, entries whose effect the snapshot already contains - seen as
        // history entries that occur twice. Compared without them.
        let repeated = |l: &Obs, f: &Obs| -> Option<Vec<String>> {
            let (f2, keys) = without_repeated_history(f);
            if keys.is_empty() {
                return None;
            }
            let mut l2 = l.clone();
            let mut f2 = f2;
            l2.records.retain(|r| r.0 != "T_CONFIG");
            f2.records.retain(|r| r.0 != "T_CONFIG");
            if keys.iter().any(|k| k.starts_with("mcp ")) {
                l2.records.retain(|r| !r.0.contains("MCP_SERVER"));
            }
            if l2 == f2 { Some(keys) } else { None }
        };
        if !ok {
            let state = format!("leader: last_log={} applied={} snapshot(before connect)={}; follower: {:?} last_log={} applied={} members={:?}", m1.last_log_index, m1.last_applied, snap_before, m2.state, m2.last_log_index, m2.last_applied, m2.membership_config.members);
            let files = tokio::fs::list_files(&format!("{}/n2/", root));
            let files: Vec<(String, u64)> = files.iter().map(|(n, l)| (n.rsplit('/').next().unwrap_or("").to_string(), *l as u64)).collect();
            let extras = last_f.as_ref().and_then(|f| stale_extras(&obs_l, f));
            if let (Some(extras), true) = (&extras, cfg.scenario == 1) {
                // recorded defect: installing a snapshot adds and overwrites, it does not remove what the snapshot does not contain
                sim::count("probe.removed_key_survives_snapshot_install", 1);
                findings.push(Violation::new(&format!("{}.removed_key_survives_snapshot_install", id), format!("60 simulated s after it was reconnected the follower serves everything the leader serves, and in addition what was removed on the leader while it was away ({}): installing a snapshot does not remove entries the snapshot no longer contains [[{}]]", extras.join(", "), state)));
            } else if let Some(keys) = last_f.as_ref().and_then(|f| repeated(&obs_l, f)) {
                sim::count("probe.installed_snapshot_older_header", 1);
                findings.push(Violation::new(&format!("{}.entries_applied_on_top_of_snapshot_that_contains_them", id), format!("the follower serves the leader's data except that the change history of {:?} holds entries twice: the installed snapshot already contained the effect of entries above its header index, and the follower applied them again [[{}]]", keys, state)));
            } else if let Some((cl, text)) = kill_in_transfer_finding(&cfg, &root) {
                sim::count(&format!("probe.{}", cl), 1);
                findings.push(Violation::new(&format!("{}.{}", id, cl), format!("{}; 60 s after the transfer it serves: {} [[{}]]", text, last, state)));
                return Ok(());
            } else {
                let fsnap = n2.app.raft_store.get_current_snapshot().await.map(|s| s.map(|s| (s.index, s.term))).unwrap_or(None);
                vfail!(&format!("{}.follower_not_caught_up", id), "60 simulated s after it was connected the follower does not serve what the leader serves: {} [[{}; follower snapshot={:?} files={:?}]]", last, state, fsnap, files);
            }
        }
        // membership as recorded by the leader
        let mut want: std::collections::BTreeSet<u64> = m1.membership_config.members.iter().cloned().collect();
        let mut have: std::collections::BTreeSet<u64> = n2.app.raft_store.get_membership_config().await.map(|c| c.members.into_iter().collect()).unwrap_or_default();
        // (the data comparison above can succeed at once in a nearly empty cluster; the follower still has the rest of the
        // 60 s to receive the membership entries)
        for _ in 0..60 {
            if want == have {
                break;
            }
            advance(1_000).await;
            if let Some(n2) = node(2) {
                want = metrics(&n1).membership_config.members.iter().cloned().collect();
                have = n2.app.raft_store.get_membership_config().await.map(|c| c.members.into_iter().collect()).unwrap_or_default();
            }
        }
        let n2 = node(2).ok_or_else(|| Violation::new("harness.node", "follower missing"))?;
        if want != have {
            let mut dbg = String::new();
            for nn in [&n1, &n2] {
                let mm = metrics(nn);
                let es = nn.app.raft_store.get_log_entries(mm.last_log_index.saturating_sub(8).max(1), mm.last_log_index + 1).await.unwrap_or_default();
                let snap = nn.app.raft_store.get_current_snapshot().await.map(|s| s.map(|s| (s.index, s.membership.members.clone()))).unwrap_or(None);
                dbg.push_str(&format!(" n{}: state={:?} term={} last_log={} applied={} core-membership={:?}/{:?} snapshot={:?} log tail: {};", nn.id, mm.state, mm.current_term, mm.last_log_index, mm.last_applied, mm.membership_config.members, mm.membership_config.members_after_consensus, snap, es.iter().map(|e| format!("{}:t{}:{}", e.index, e.term, crate::rig_l::payload_json(&e.payload).chars().take(60).collect::<String>())).collect::<Vec<_>>().join(" | ")));
            }
            let f_next = metrics(&n2).last_log_index + 1;
            for stop in [f_next + 301, metrics(&n1).last_log_index + 1] {
                let es = n1.app.raft_store.get_log_entries(f_next, stop).await.unwrap_or_default();
                dbg.push_str(&format!(" leader.get_log_entries({}, {}) -> {} entries, first {:?}, kinds {:?};", f_next, stop, es.len(), es.first().map(|e| e.index), es.iter().take(3).map(|e| crate::rig_l::payload_json(&e.payload).chars().take(20).collect::<String>()).collect::<Vec<_>>()));
            }
            vfail!(&format!("{}.membership", id), "follower's stored membership {:?} differs from the leader's {:?} [[{}]]", have, want, dbg);
        }
        // after a restart of the follower the equality holds (again)
        if cfg.restart_follower_at_end || cfg.quiet {
            stop_node(2).await;
            let n2 = start_node(&root, 2, false, Some(1), &cfg.base.node).await.map_err(|e| Violation::new(&format!("{}.restart_failed", id), e.to_string()))?;
            let mut ok2 = false;
            let mut last2 = String::new();
            let mut last2_f: Option<Obs> = None;
            let mut last2_l: Obs = obs_l.clone();
            for _ in 0..60 {
                advance(1_000).await;
                let obs_l = observe(&n1, "L").await.map_err(|e| Violation::new(&format!("{}.observe_failed", id), e.to_string()))?;
                let obs_f = observe(&n2, "F").await.map_err(|e| Violation::new(&format!("{}.observe_failed", id), e.to_string()))?;
                let (obs_l, obs_f) = without_cfg_seq_mark(&obs_l, &obs_f);
                if obs_l == obs_f {
                    ok2 = true;
                    digest = obs_digest(&obs_f);
                    break;
                }
                last2 = obs_diff(&obs_l, &obs_f);
                last2_f = Some(obs_f);
                last2_l = obs_l;
            }
            if !ok2 {
                let mut dbg = String::new();
                for nn in ["n1", "n2"] {
                    let files = tokio::fs::list_files(&format!("{}/{}/", root, nn));
                    dbg.push_str(&format!(" {}: {:?}", nn, files.iter().map(|(n, l)| (n.rsplit('/').next().unwrap_or("").to_string(), *l)).collect::<Vec<_>>()));
                }
                for nn in ["n1", "n2"] {
                    for (name, _) in tokio::fs::list_files(&format!("{}/{}/", root, nn)) {
                        if name.contains("snapshot_") {
                            if let Ok(mut rd) = rnacos::raft::filestore::raftsnapshot::SnapshotReader::init(&format!("{}/{}.e{}/{}", root, nn, tokio::fs::current_epoch(nn), name.rsplit('/').next().unwrap_or(""))).await {
                                let hdr = format!("{:?}", rd.get_header().last_index);
                                let mut keys = vec![];
                                while let Ok(Some(r)) = rd.read_record().await {
                                    if r.tree.as_str() == "T_USER" || r.tree.as_str() == "T_SEQUENCE" {
                                        keys.push(format!("{}/{}", r.tree, String::from_utf8_lossy(&r.key)));
                                    }
                                }
                                dbg.push_str(&format!(" | {}:{} last_index={} {:?}", nn, name.rsplit('/').next().unwrap_or(""), hdr, keys));
                            }
                        }
                    }
                }
                let m2 = metrics(&n2);
                // what may remain after the restart: the recorded defects seen before it (entries removed on the leader while the
                // follower was away survive the install - and the follower's own later compaction; a chunk lost by the kill)
                if let (Some(extras), true) = (last2_f.as_ref().and_then(|f| stale_extras(&last2_l, f)), cfg.scenario == 1) {
                    sim::count("probe.removed_key_survives_snapshot_install", 1);
                    if !findings.iter().any(|f| f.clause.ends_with("removed_key_survives_snapshot_install")) {
                        findings.push(Violation::new(&format!("{}.removed_key_survives_snapshot_install", id), format!("after its restart the follower still serves what was removed on the leader while it was away ({}): the snapshot install did not remove it and the follower's own compaction kept it [[follower last_log={} applied={};{}]]", extras.join(", "), m2.last_log_index, m2.last_applied, dbg)));
                    }
                    return Ok(());
                }
                if let Some(keys) = last2_f.as_ref().and_then(|f| repeated(&last2_l, f)) {
                    sim::count("probe.installed_snapshot_older_header", 1);
                    if !findings.iter().any(|f| f.clause.ends_with("entries_applied_on_top_of_snapshot_that_contains_them")) {
                        findings.push(Violation::new(&format!("{}.entries_applied_on_top_of_snapshot_that_contains_them", id), format!("after its restart the follower serves the leader's data except that the change history of {:?} holds entries twice (snapshot header index older than the snapshot's content, entries replayed on top) [[follower last_log={} applied={}]]", keys, m2.last_log_index, m2.last_applied)));
                    }
                    return Ok(());
                }
                if let Some((cl, text)) = kill_in_transfer_finding(&cfg, &root) {
                    sim::count(&format!("probe.{}", cl), 1);
                    findings.push(Violation::new(&format!("{}.{}", id, cl), format!("{}; after another restart it serves: {} [[follower last_log={} applied={};{}]]", text, last2, m2.last_log_index, m2.last_applied, dbg)));
                    return Ok(());
                }
                vfail!(&format!("{}.differs_after_follower_restart", id), "60 simulated s after its restart the follower does not serve what the leader serves: {} [[follower last_log={} applied={};{}]]", last2, m2.last_log_index, m2.last_applied, dbg);
            }
            sim::count("probe.follower_restarted", 1);
        }
        // later writes keep replicating
        let st = WStep::CfgSet { node: 1, t: 1, g: 0, d: 4, size: 10, same: false, typ: 0, desc: 0 };
        let mut mm = WModel::default();
        mm.uniq = 2_000_000;
        let _ = do_step(&n1, &st, &mut mm, 10_000).await;
        let want_c = mm.cfg.values().next().map(|e| e.content.clone()).unwrap_or_default();
        let mut seen = false;
        for _ in 0..30 {
            advance(1_000).await;
            if let Some(n2) = node(2) {
                if let Ok(Some(v)) = cfg_get(&n2, cfg_key(1, 0, 4)).await {
                    if v.0 == want_c {
                        seen = true;
                        break;
                    }
                }
            }
        }
        if findings.is_empty() || cfg.restart_follower_at_end {
            vensure!(seen, &format!("{}.later_write_not_replicated", id), "a write made after the follower caught up is not served by it 30 simulated s later");
        }
        Ok(())
    };
    let mut stuck = false;
    let r: VResult<()> = tokio::select! {
        r = body => r,
        _ = spin_stuck() => {
            // the needs-snapshot loop ran 30 000 rounds at one simulated instant: nothing will end it (recorded defect)
            stuck = true;
            sim::count("probe.needs_snapshot_loop_permanent", 1);
            Ok(())
        }
    };
    let _ = stuck;
    if sim::counter("probe.needs_snapshot_loop_detected") > 0 {
        findings.push(Violation::new(&format!("{}.needs_snapshot_livelock", id), format!("while a follower needed a snapshot and the leader's snapshot policy was not met (snapshot older than half the threshold, fewer than threshold new entries) the leader and its replication stream exchanged needs-snapshot requests in a tight loop without any pause ({} bursts of 100 calls at one simulated instant); only further client writes end it - with no writes the follower is never caught up", sim::counter("probe.needs_snapshot_loop_detected"))));
    }
    let info = RunInfo { digest, nontrivial: installed, info: json!({"installed": installed}), findings };
    for n in live_nodes() {
        kill_node(n.id).await;
    }
    ExecResult { violation: r.err(), info }
}

impl Check for C08 {
    fn id(&self) -> &'static str {
        "C08"
    }
    fn generate(&self, seed: u64, _tier: Tier) -> Value {
        let mut rng = Rng::derive(seed, "C08.gen", 0);
        let mut cfg = C08Cfg::default();
        cfg.base.nodes = 2;
        cfg.base.node.snapshot_log_size = rng.range(5, 30);
        // no disk latency here: while the leader answers a follower that needs a snapshot in a tight loop
        // no simulated time passes, so a compaction that waits for a disk timer would never finish
        cfg.base.disk_p_delay = 0.0;
        cfg.scenario = rng.below(2) as u8;
        cfg.kill = rng.chance(0.5);
        cfg.restart_follower_at_end = rng.chance(0.6);
        cfg.quiet = Rng::derive(seed, "C08.quiet", 0).chance(0.4);
        // kill inside the transfer: in quiet clusters only. With writes going on, the leader compacts again while the follower
        // is away and the dependency's replication stream then sends entries above a gap (see DESIGN.md 8.4): the follower's
        // raft core stops on the storage error or applies entries its log refused, which cannot be told apart from a defect
        // of the product by evidence. The quiet cluster isolates the product's own part: file handling, catalogue, load.
        let mut rk = Rng::derive(seed, "C08.killmsg", 0);
        if cfg.quiet && rk.chance(0.6) {
            cfg.kill_on_snapshot_msg = rk.range(1, 3);
            cfg.kill_after_handling = rk.chance(0.6);
            cfg.restart_delay_ms = *rk.pick(&[0u64, 100, 1500, 6000]);
            cfg.restart_follower_at_end = true;
            cfg.third_node = true;
        }
        // (a follower that was killed, not one that was cut off: the latter returns with an inflated term and forces an
        // election on top of the restart, which leads into the dependency's leader-change defects recorded under C06)
        if cfg.scenario == 1 && !cfg.third_node && Rng::derive(seed, "C08.leader_restart", 0).chance(0.4) {
            cfg.third_node = true;
            cfg.leader_restart_before_connect = true;
            cfg.kill = true;
            // (and in a quiet cluster, like the kill inside a transfer: with a client that keeps writing, the restarted
            // leader's replication stream runs into the dependency's stuck-stream defects - follower one entry behind or
            // far behind for good - which cannot be told apart from a product defect by evidence)
            cfg.quiet = true;
        }
        let n = rng.range(cfg.base.node.snapshot_log_size + 5, 90);
        cfg.before = rng.range(0, 10) as usize;
        cfg.pause_before_away_ms = *Rng::derive(seed, "C08.pause", 0).pick(&[0u64, 300, 1500, 1500]);
        let mut steps = vec![];
        let w = [50u32, 8, 8, 4, 3, 0, 0, 0, 0];
        for _ in 0..n {
            steps.push(gen_wstep(&mut rng, 1, &w));
        }
        // a follower that was up before: half of these histories publish something while it is still there and remove it
        // after it has gone (what the snapshot it receives later no longer contains)
        let mut rr = Rng::derive(seed, "C08.removed", 0);
        if cfg.scenario == 1 && rr.chance(0.5) {
            cfg.before = cfg.before.max(2);
            let (t, g, d) = (rr.below(3) as u8, rr.below(2) as u8, rr.below(5) as u8);
            steps.insert(0, WStep::CfgSet { node: 1, t, g, d, size: 10, same: false, typ: 1, desc: 1 });
            let at = (cfg.before + 1 + rr.below(5) as usize).min(steps.len());
            steps.insert(at, WStep::CfgDel { node: 1, t, g, d });
        }
        let mut rm = Rng::derive(seed, "C08.mcp", 0);
        if rm.chance(0.3) {
            for _ in 0..rm.range(2, 8) {
                let at = rm.below(steps.len() as u64 + 1) as usize;
                steps.insert(at, gen_mcp_step(&mut rm, 1));
            }
        }
        json!({"check": "C08", "seed": seed, "cfg": cfg, "steps": steps})
    }
    fn execute(&self, script: Value) -> LocalFut<ExecResult> {
        Box::pin(exec_c08(script))
    }
}

// ---------------------------------------------------------------------------
// C19: issued sequence ids (and config history ids) are unique and increasing across restarts and nodes

pub struct C19;

#[derive(Clone, Debug)]
pub struct IdRec {
    pub node: u64,
    /// true: GetDirectRange (fresh range from raft); false: GetNextId (node-local cached range)
    pub range: bool,
    pub key: u8,
    pub ids: Vec<u64>,
    pub invoke: u64,
    pub ret: u64,
}

/// Evidence of the dependency's skipped-apply defect (recorded under C06: at a leader change async-raft-ext skips the
/// entries a node had received but not yet applied) on the nodes of a C19 run: a node whose state is not what its own log
/// yields up to its applied index - a publish it neither serves nor has in the key's history, an imported value whose key it
/// does not serve, or a sequence whose next free id is not 1 + the lengths of the range entries it holds. Ids drawn from
/// such a state repeat ids the skipped entries had handed out; that is not a defect of the id logic.
async fn c19_skipped_apply_evidence(_root: &str) -> Option<String> {
    use async_raft_ext::raft::EntryPayload;
    use rnacos::raft::store::ClientRequest;
    use rnacos::sequence::model::SequenceRaftReq;
    let mut keymap: BTreeMap<String, String> = BTreeMap::new();
    for t in 0..TENANTS.len() as u8 {
        for g in 0..GROUPS.len() as u8 {
            for d in 0..DATA_IDS.len() as u8 {
                keymap.insert(cfg_key(t, g, d).build_key(), key_str(t, g, d));
            }
        }
    }
    let mut complete: Option<Vec<async_raft_ext::raft::Entry<ClientRequest>>> = None;
    for n in live_nodes() {
        let m = metrics(&n);
        if let Ok(es) = n.app.raft_store.get_log_entries(1, m.last_log_index + 1).await {
            if es.first().map(|e| e.index == 1).unwrap_or(false) && es.len() > complete.as_ref().map(|c| c.len()).unwrap_or(0) {
                complete = Some(es);
            }
        }
    }
    for n in live_nodes() {
        let m = metrics(&n);
        if m.last_applied > m.last_log_index {
            return Some(format!("node {} reports last_applied {} beyond its last log index {}", n.id, m.last_applied, m.last_log_index));
        }
        let es = match n.app.raft_store.get_log_entries(1, m.last_log_index + 1).await {
            Ok(es) => es,
            Err(_) => continue,
        };
        // A node whose own log is compacted is judged against the complete log of a peer (committed prefixes are equal):
        // its own snapshot is no base, the skipped entries are missing from it as well
        let mut seq_next: BTreeMap<String, u64> = BTreeMap::new();
        let base_index = 0u64;
        let es = if es.first().map(|e| e.index != 1).unwrap_or(true) {
            match &complete {
                Some(c) if c.last().map(|e| e.index >= m.last_applied).unwrap_or(false) => c.clone(),
                _ => continue,
            }
        } else {
            es
        };
        let o = match observe(&n, "skipev").await {
            Ok(o) => o,
            Err(_) => continue,
        };
        for e in es.iter().filter(|e| e.index <= m.last_applied && e.index > base_index) {
            if let EntryPayload::Normal(nm) = &e.payload {
                match &nm.data {
                    ClientRequest::ConfigSet { key, value, .. } => {
                        if let Some(ks) = keymap.get(key) {
                            let hist = o.hist.get(ks).cloned().unwrap_or_default();
                            let cur = o.cfg.get(ks).cloned().flatten().map(|v| v.0);
                            if hist.len() < 100 && !hist.iter().any(|h| &h.1 == value.as_ref()) && cur.as_deref() != Some(value.as_str()) {
                                return Some(format!("node {} holds the publish of {} to {} at log index {} (term {}), at or below its applied index {}, but neither serves it nor has it in the key's history", n.id, trunc(value), ks, e.index, e.term, m.last_applied));
                            }
                        }
                    }
                    ClientRequest::ConfigFullValue { key, .. } => {
                        let k = String::from_utf8_lossy(key).to_string();
                        if let Some(ks) = keymap.get(&k) {
                            if o.cfg.get(ks).cloned().flatten().is_none() {
                                return Some(format!("node {} holds the imported value of {} at log index {} (term {}), at or below its applied index {}, but does not serve the key", n.id, ks, e.index, e.term, m.last_applied));
                            }
                        }
                    }
                    ClientRequest::SequenceReq { req } => match req {
                        SequenceRaftReq::NextRange(k, len) => *seq_next.entry(k.as_ref().clone()).or_insert(1) += *len,
                        SequenceRaftReq::NextId(k) => *seq_next.entry(k.as_ref().clone()).or_insert(1) += 1,
                        SequenceRaftReq::SetId(k, v) => {
                            seq_next.insert(k.as_ref().clone(), *v);
                        }
                        _ => {}
                    },
                    _ => {}
                }
            }
        }
        if std::env::var("RNSIM_C19_DEBUG").is_ok() {
            eprintln!("dbg n{} applied={} log={}..{} base={} fold={:?} state={:?}", n.id, m.last_applied, es.first().map(|e| e.index).unwrap_or(0), m.last_log_index, base_index, seq_next, o.records.iter().filter(|r| r.0 == "T_SEQUENCE").map(|r| (String::from_utf8_lossy(&r.1).to_string(), r.2.iter().fold(0u64, |a, b| (a << 8) | *b as u64))).collect::<Vec<_>>());
            for e in es.iter() {
                if let EntryPayload::Normal(nm) = &e.payload {
                    if let ClientRequest::SequenceReq { req } = &nm.data {
                        eprintln!("dbg   n{} entry {} t{} {:?}", n.id, e.index, e.term, req);
                    }
                }
            }
        }
        for (k, want) in &seq_next {
            let have = o.records.iter().find(|r| r.0 == "T_SEQUENCE" && r.1 == k.as_bytes()).map(|r| r.2.iter().fold(0u64, |a, b| (a << 8) | *b as u64));
            if let Some(have) = have {
                if have < *want {
                    return Some(format!("node {}: the range entries for sequence {} in its log up to its applied index {} add up to a next free id of {}, its state says {}", n.id, k, m.last_applied, want, have));
                }
            }
        }
    }
    None
}

pub async fn exec_c19(script: Value) -> ExecResult {
    use std::cell::RefCell;
    use std::rc::Rc as LRc;
    let id = "C19";
    let seed = script["seed"].as_u64().unwrap_or(1);
    let cfg: NCfg = serde_json::from_value(script["cfg"].clone()).unwrap_or_default();
    let steps: Vec<WStep> = match serde_json::from_value(script["steps"].clone()) {
        Ok(s) => s,
        Err(e) => return ExecResult { violation: Some(Violation::new("harness.script", e.to_string())), info: RunInfo::default() },
    };
    tokio::fs::set_cfg(disk_cfg(&cfg));
    tokio::fs::with_disk(|d| {
        d.journal_on = false;
        d.log_ops = false;
    });
    net_reset(seed, cfg.net.clone());
    install_spin_tap();
    let root = run_root(seed);
    let recs: LRc<RefCell<Vec<IdRec>>> = LRc::new(RefCell::new(vec![]));
    let mut findings = vec![];
    let mut digest = 0u64;
    let nodes = cfg.nodes.max(1);
    let r: VResult<()> = async {
        if nodes == 1 {
            let n = start_node(&root, 1, true, None, &cfg.node).await.map_err(|e| Violation::new("harness.start", e.to_string()))?;
            vensure!(wait_leader(&n, 20_000).await.is_some(), &format!("{}.no_leader", id), "single node did not become leader");
            advance(16_000).await;
        } else {
            cluster_up(&root, &cfg, id).await?;
            // an early leader change, so that the leader replicates to voters (see C06's recorded findings)
            if let Some(l) = majority_leader() {
                let all: Vec<u64> = (1..=nodes).collect();
                isolate(l, &all);
                advance(8_000).await;
                heal_all();
                advance(5_000).await;
            }
        }
        // background client that only writes while async-raft's needs-snapshot loop runs
        if let Some(n1) = node(1) {
            actix_rt::spawn(async move {
                let mut bm = WModel::default();
                bm.uniq = 5_000_000;
                loop {
                    wait_spin().await;
                    if let Some(l) = majority_leader().and_then(node).or_else(|| Some(n1.clone())) {
                        let st = WStep::CfgSet { node: l.id, t: 2, g: 1, d: 4, size: 5, same: false, typ: 0, desc: 0 };
                        let _ = do_step(&l, &st, &mut bm, 10_000).await;
                    }
                    tokio::task::yield_now().await;
                }
            });
        }
        let mut had_election = false;
        let mut m = WModel::default();
        let mut handles = vec![];
        let paced = script["paced"].as_bool().unwrap_or(false);
        for (i, st) in steps.iter().enumerate() {
            sim::event(&format!("step {} {}", i, serde_json::to_string(st).unwrap_or_default()));
            match st {
                WStep::SeqNext { node: nid, key, .. } | WStep::SeqRange { node: nid, key, .. } => {
                    let target = match node(*nid) {
                        Some(t) => t,
                        None => continue,
                    };
                    let st2 = st.clone();
                    let recs2 = recs.clone();
                    let key = *key % 3;
                    let nid = *nid;
                    let is_range = matches!(st, WStep::SeqRange { .. });
                    let invoke = {
                        sim::event("invoke seq");
                        sim::ev_seq()
                    };
                    handles.push(actix_rt::spawn(async move {
                        let mut mm = WModel::default();
                        let out = do_step(&target, &st2, &mut mm, 20_000).await;
                        sim::event("return seq");
                        if let OpOutcome::Ids(ids) = out {
                            recs2.borrow_mut().push(IdRec { node: nid, range: is_range, key, ids, invoke, ret: sim::ev_seq() });
                        }
                    }));
                    // several requests in flight per node - except in paced runs, where every request ends before the next
                    if paced {
                        if let Some(h) = handles.pop() {
                            let _ = h.await;
                        }
                    } else if i % 3 == 0 {
                        advance(1).await;
                    }
                }
                WStep::SeqBurst { node: nid, key, k, pos, range_len, then } => {
                    use rnacos::sequence::{SequenceRequest, SequenceResult};
                    let target = match node(*nid) {
                        Some(t) => t,
                        None => continue,
                    };
                    let recs2 = recs.clone();
                    let (key, nid, k, pos, range_len, then) = (*key % 3, *nid, (*k).max(2), *pos, (*range_len).max(1) as u64, *then);
                    sim::event("invoke seq burst");
                    let invoke = sim::ev_seq();
                    sim::count("probe.burst_of_next_id_requests", 1);
                    handles.push(actix_rt::spawn(async move {
                        let kname = Arc::new(format!("seq{}", key));
                        let mut futs: Vec<std::pin::Pin<Box<dyn std::future::Future<Output = (bool, Vec<u64>)>>>> = vec![];
                        for j in 0..k {
                            if j == pos % k {
                                let (t, kn) = (target.clone(), kname.clone());
                                futs.push(Box::pin(async move {
                                    match within(20_000, t.app.sequence_manager.send(SequenceRequest::GetDirectRange(kn, range_len))).await {
                                        Some(Ok(Ok(SequenceResult::Range(mut r)))) => {
                                            let mut ids = vec![];
                                            while let Some(id) = r.next_id() {
                                                ids.push(id);
                                                if ids.len() > 10_000 {
                                                    break;
                                                }
                                            }
                                            (true, ids)
                                        }
                                        _ => (true, vec![]),
                                    }
                                }));
                            }
                            let (t, kn) = (target.clone(), kname.clone());
                            futs.push(Box::pin(async move {
                                match within(20_000, t.app.sequence_manager.send(SequenceRequest::GetNextId(kn))).await {
                                    Some(Ok(Ok(SequenceResult::NextId(id)))) => (false, vec![id]),
                                    _ => (false, vec![]),
                                }
                            }));
                        }
                        let results = futures_util::future::join_all(futs).await;
                        sim::event("return seq burst");
                        let ret = sim::ev_seq();
                        for (is_range, ids) in results {
                            if !ids.is_empty() {
                                recs2.borrow_mut().push(IdRec { node: nid, range: is_range, key, ids, invoke, ret });
                            }
                        }
                        // then enough single draws to use up every range the burst fetched
                        sim::event("invoke seq");
                        let invoke2 = sim::ev_seq();
                        let mut ids = vec![];
                        for _ in 0..then {
                            match within(20_000, target.app.sequence_manager.send(SequenceRequest::GetNextId(kname.clone()))).await {
                                Some(Ok(Ok(SequenceResult::NextId(id)))) => ids.push(id),
                                _ => break,
                            }
                        }
                        sim::event("return seq");
                        if !ids.is_empty() {
                            recs2.borrow_mut().push(IdRec { node: nid, range: false, key, ids, invoke: invoke2, ret: sim::ev_seq() });
                        }
                    }));
                    if i % 3 == 0 {
                        advance(1).await;
                    }
                }
                WStep::Restart { node: nid } | WStep::KillRestart { node: nid } => {
                    // only followers are restarted in the 3-node variant (leader death hits recorded async-raft defects, see C06)
                    if nodes > 1 && majority_leader() == Some(*nid) {
                        continue;
                    }
                    if node(*nid).is_none() {
                        continue;
                    }
                    if matches!(st, WStep::Restart { .. }) {
                        stop_node(*nid).await;
                    } else {
                        kill_node(*nid).await;
                        sim::count("fault.kill", 1);
                    }
                    let n = start_node(&root, *nid, *nid == 1, if *nid == 1 { None } else { Some(1) }, &cfg.node).await.map_err(|e| Violation::new(&format!("{}.restart_failed", id), e.to_string()))?;
                    advance(12_000).await;
                    let _ = wait_leader(&n, 20_000).await;
                    sim::count("probe.node_restarted", 1);
                }
                WStep::LeaderHandover { during, after, back } => {
                    if nodes < 3 {
                        continue;
                    }
                    let all: Vec<u64> = (1..=nodes).collect();
                    // the cut is placed at a quiet moment: every request of the earlier steps has been answered and applied
                    // everywhere (entries in flight at a leader change are what the dependency's skipped-apply defect loses)
                    for h in handles.drain(..) {
                        let _ = h.await;
                    }
                    settle().await;
                    advance(1_500).await;
                    let l1 = match majority_leader() {
                        Some(l) => l,
                        None => continue,
                    };
                    let pubs = |nid: u64, j: u8| WStep::CfgSet { node: nid, t: 1, g: 0, d: (j % 3), size: 10, same: false, typ: 0, desc: 0 };
                    // The node that formed the cluster commits alone while it is cut off (recorded dependency defect, C06
                    // formation_leader_commits_without_quorum: async-raft-ext keeps the nodes it promoted out of its replication
                    // targets for the whole of its first leadership). Its first leadership is ended quietly - no client talks to
                    // it while it is cut off - and the hand-over under load starts from a leader that was elected.
                    let mut l1 = l1;
                    if !had_election {
                        isolate(l1, &all);
                        let other = all.iter().cloned().find(|x| *x != l1).unwrap_or(1);
                        for _ in 0..20 {
                            advance(1_000).await;
                            if node(other).map(|o| metrics(&o).current_leader.map(|l| l != l1).unwrap_or(false)).unwrap_or(false) {
                                break;
                            }
                        }
                        heal_all();
                        advance(6_000).await;
                        had_election = true;
                        sim::count("probe.first_leadership_ended_quietly", 1);
                        l1 = match majority_leader() {
                            Some(l) => l,
                            None => continue,
                        };
                    }
                    let applied_before = node(l1).map(|t| metrics(&t).last_applied).unwrap_or(0);
                    isolate(l1, &all);
                    sim::count("fault.isolate_leader", 1);
                    if let Some(t) = node(l1) {
                        for j in 0..*during {
                            let _ = do_step(&t, &pubs(l1, j), &mut m, 1_500).await;
                        }
                    }
                    if node(l1).map(|t| metrics(&t).last_applied).unwrap_or(0) > applied_before {
                        vfail!(&format!("{}.cut_off_leader_applied_entries", id), "node {} (an elected leader, cut off from both other nodes) applied entries {}..{} while it was cut off", l1, applied_before + 1, node(l1).map(|t| metrics(&t).last_applied).unwrap_or(0));
                    }
                    // the others elect a leader and serve clients
                    let other = all.iter().cloned().find(|x| *x != l1).unwrap_or(1);
                    for _ in 0..20 {
                        advance(1_000).await;
                        if node(other).map(|o| metrics(&o).current_leader.map(|l| l != l1).unwrap_or(false)).unwrap_or(false) {
                            break;
                        }
                    }
                    if let Some(t) = node(other) {
                        for j in 0..*after {
                            let _ = do_step(&t, &pubs(other, j), &mut m, 10_000).await;
                        }
                    }
                    heal_all();
                    advance(6_000).await;
                    if *back > 0 {
                        if let Some(l2) = majority_leader() {
                            isolate(l2, &all);
                            sim::count("fault.isolate_leader", 1);
                            advance(10_000).await;
                            let via = all.iter().cloned().find(|x| *x != l2 && (*x == l1 || l1 == l2)).unwrap_or(other);
                            if let Some(t) = node(via) {
                                for j in 0..*back {
                                    let _ = do_step(&t, &pubs(via, j), &mut m, 10_000).await;
                                }
                                if metrics(&t).current_leader == Some(l1) && l1 != l2 {
                                    sim::count("probe.first_leader_leads_again", 1);
                                }
                            }
                            heal_all();
                            advance(6_000).await;
                        }
                    }
                    sim::count("probe.leader_handover", 1);
                }
                WStep::Advance { ms } => advance(*ms).await,
                other => {
                    // an import runs on the leader (TransferImportManager writes with raft.client_write, which a follower refuses)
                    let target_id = if matches!(other, WStep::Import { .. }) && nodes > 1 { majority_leader().unwrap_or(step_node(other)) } else { step_node(other) };
                    if let Some(target) = node(target_id) {
                        let _ = do_step(&target, other, &mut m, 20_000).await;
                    }
                }
            }
        }
        for h in handles {
            let _ = h.await;
        }
        settle().await;
        advance(3_000).await;
        let recs = recs.borrow().clone();
        // leader changes run into the dependency's skipped-apply defect; looked for once, by evidence in the nodes
        let skip_ev: Option<String> = if nodes > 1 && sim::counter("probe.leader_handover") > 0 { c19_skipped_apply_evidence(&root).await } else { None };
        macro_rules! c19fail {
            ($clause:expr, $($arg:tt)*) => {{
                let msg = format!($($arg)*);
                if let Some(ev) = &skip_ev {
                    sim::count("probe.entry_skipped_at_leader_change", 1);
                    findings.push(Violation::new(&format!("{}.entry_skipped_at_leader_change", id), format!("{}; ids were drawn from a state that lacks entries skipped at a leader change: {}", msg, ev)));
                    return Ok(());
                }
                vfail!(&format!("{}.{}", id, $clause), "{}", msg);
            }};
        }
        // uniqueness per key over everything any node ever returned
        for key in 0..3u8 {
            let mut seen: BTreeMap<u64, (u64, u64)> = BTreeMap::new();
            for r in recs.iter().filter(|r| r.key == key) {
                for idv in &r.ids {
                    if let Some(prev) = seen.insert(*idv, (r.node, r.invoke)) {
                        let msg = format!("sequence seq{}: id {} was handed out twice (node {} at event {}, node {} at event {})", key, idv, prev.0, prev.1, r.node, r.invoke);
                        if sim::counter("fault.kill") > 0 {
                            // recorded defects (known_findings.jsonl): a kill -9 loses raft entries that were acknowledged
                            // before their log write completed, and after any unclean restart async-raft never applies the
                            // entries between the stored last-applied index and the new leader's first blank entry
                            if findings.is_empty() {
                                findings.push(Violation::new(&format!("{}.duplicate_after_kill_restart", id), format!("{}; the run contains {} kill -9 restart(s) ({} issued-but-uncompleted file writes discarded)", msg, sim::counter("fault.kill"), sim::counter("disk.lost_on_crash"))));
                            }
                            return Ok(());
                        }
                        c19fail!("duplicate_id", "{}", msg);
                    }
                }
            }
            // per node: a request that returned before another was invoked got smaller ids
            for a in recs.iter().filter(|r| r.key == key) {
                // (ids of the node-local cache and directly drawn ranges come from different ranges by design:
                // compared within one kind only)
                for b in recs.iter().filter(|r| r.key == key && r.node == a.node && r.range == a.range) {
                    if a.ret < b.invoke {
                        if let (Some(ma), Some(mb)) = (a.ids.iter().max(), b.ids.iter().min()) {
                            if ma >= mb && sim::counter("fault.kill") > 0 {
                                // same recorded defect as duplicates after a kill -9 restart: the range entry acknowledged
                                // before its log write completed is lost, the sequence restarts below ids already handed out
                                if findings.is_empty() {
                                    findings.push(Violation::new(&format!("{}.duplicate_after_kill_restart", id), format!("sequence seq{} on node {}: a request that returned at event {} got ids up to {}, a later request (invoked at {}) got ids from {}; the run contains {} kill -9 restart(s) ({} issued-but-uncompleted file writes discarded)", key, a.node, a.ret, ma, b.invoke, mb, sim::counter("fault.kill"), sim::counter("disk.lost_on_crash"))));
                                }
                                return Ok(());
                            }
                            if ma >= mb {
                                // (ids of one request compressed into ascending runs)
                                let runs = |ids: &Vec<u64>| -> String {
                                    let mut out = vec![];
                                    let mut i = 0;
                                    while i < ids.len() {
                                        let mut j = i;
                                        while j + 1 < ids.len() && ids[j + 1] == ids[j] + 1 {
                                            j += 1;
                                        }
                                        out.push(if i == j { format!("{}", ids[i]) } else { format!("{}-{}", ids[i], ids[j]) });
                                        i = j + 1;
                                    }
                                    out.join(",")
                                };
                                let all: Vec<String> = recs.iter().filter(|r| r.key == key && r.node == a.node).map(|r| format!("{}[{}]@{}-{}", if r.range { "range" } else { "next" }, runs(&r.ids), r.invoke, r.ret)).collect();
                                // recorded defect (see known_findings.jsonl): with several next-id requests of one node in flight at
                                // once, each cache miss fetches its own range; the answers can arrive in any order and a range fetched
                                // earlier (lower ids) is taken into use after a later one - the node's ids drop by whole ranges.
                                // Evidence required: the two ids lie in different ranges of the node-local step (100) - the drop is by
                                // whole ranges - and nothing is handed out twice (duplicates are checked above, before this clause).
                                // the ranges as the replicated counter allocated them, rebuilt from a node's raft log (None when the log's
                                // beginning has been compacted away: then the ids cannot be attributed to ranges and the pair is accepted
                                // as the recorded defect on the strength of 'nothing was handed out twice')
                                let allocs: Option<Vec<(u64, u64)>> = {
                                    use async_raft_ext::raft::EntryPayload;
                                    use rnacos::raft::store::ClientRequest;
                                    use rnacos::sequence::model::SequenceRaftReq;
                                    let mut out = None;
                                    for n in live_nodes() {
                                        let m = metrics(&n);
                                        if let Ok(es) = n.app.raft_store.get_log_entries(1, m.last_log_index + 1).await {
                                            if es.first().map(|e| e.index == 1).unwrap_or(false) && es.iter().all(|e| !matches!(e.payload, EntryPayload::SnapshotPointer(_))) {
                                                let kname = format!("seq{}", key);
                                                let mut next = 1u64;
                                                let mut v = vec![];
                                                for e in &es {
                                                    if let EntryPayload::Normal(nm) = &e.payload {
                                                        if let ClientRequest::SequenceReq { req } = &nm.data {
                                                            match req {
                                                                SequenceRaftReq::NextRange(k, len) if k.as_str() == kname => {
                                                                    v.push((next, next + len - 1));
                                                                    next += len;
                                                                }
                                                                SequenceRaftReq::NextId(k) if k.as_str() == kname => {
                                                                    v.push((next, next));
                                                                    next += 1;
                                                                }
                                                                _ => {}
                                                            }
                                                        }
                                                    }
                                                }
                                                out = Some(v);
                                                break;
                                            }
                                        }
                                    }
                                    out
                                };
                                let block = |x: u64| -> u64 {
                                    match &allocs {
                                        Some(v) => v.iter().position(|(s, e)| *s <= x && x <= *e).map(|p| p as u64).unwrap_or(u64::MAX - x),
                                        // unknown allocation: every id its own range
                                        None => x,
                                    }
                                };
                                let singles: Vec<&IdRec> = recs.iter().filter(|r| r.key == key && r.node == a.node && !r.range).collect();
                                let overlapped = singles.iter().enumerate().any(|(i1, r1)| singles.iter().enumerate().any(|(i2, r2)| i1 != i2 && r1.invoke < r2.ret && r2.invoke < r1.ret && r1.invoke <= a.ret && r2.invoke <= a.ret));
                                // (the second fetch in flight can also be the cache's own prefetch - FillRange - racing the cache miss of
                                // a single client that draws faster than the prefetch answers; so overlap of client requests is noted,
                                // not required)
                                if overlapped {
                                    sim::count("probe.next_id_requests_overlapped", 1);
                                }
                                if !a.range && block(*ma) != block(*mb) {
                                    sim::count("probe.cached_range_taken_into_use_after_a_higher_one", 1);
                                    if !findings.iter().any(|f| f.clause.ends_with("cached_range_taken_into_use_after_a_higher_one")) {
                                        findings.push(Violation::new(&format!("{}.cached_range_taken_into_use_after_a_higher_one", id), format!("sequence seq{} on node {}: a request that returned at event {} got ids up to {}, a later request (invoked at {}) got ids from {}: two range fetches of the node were in flight at once (cache misses of overlapping requests, or a cache miss racing the cache's own prefetch) and the lower range came into use after the higher one (requests of this node on the key, kind[ids]@invoke-return: {})", key, a.node, a.ret, ma, b.invoke, mb, all.join(" "))));
                                    }
                                    continue;
                                }
                                c19fail!("went_backwards", "sequence seq{} on node {}: a request that returned at event {} got ids up to {}, a later request (invoked at {}) got ids from {} (all requests of this node on the key, kind[first..last]@invoke-return: {})", key, a.node, a.ret, ma, b.invoke, mb, all.join(" "));
                            }
                        }
                    }
                }
            }
        }
        sim::count("ids.issued", recs.iter().map(|r| r.ids.len() as u64).sum());
        // config history ids: never the same id on two different entries
        for n in live_nodes() {
            let o = observe(&n, "fin").await.map_err(|e| Violation::new(&format!("{}.observe_failed", id), e.to_string()))?;
            let mut by_id: BTreeMap<i64, (String, String)> = BTreeMap::new();
            for (k, h) in &o.hist {
                let mut prev: Option<i64> = None;
                for (hid, content) in h {
                    if let Some((k2, c2)) = by_id.get(hid) {
                        if (k2 != k || c2 != content) && sim::counter("fault.kill") > 0 {
                            if findings.is_empty() {
                                findings.push(Violation::new(&format!("{}.duplicate_after_kill_restart", id), format!("node {}: history id {} is stamped on two different entries ({} and {}); the run contains {} kill -9 restart(s)", n.id, hid, k2, k, sim::counter("fault.kill"))));
                            }
                        } else if k2 != k || c2 != content {
                            c19fail!("history_id_reused", "node {}: history id {} is stamped on two different entries: {} / {} and {} / {}", n.id, hid, k2, trunc(c2), k, trunc(content));
                        } else {
                            // same entry twice: signature of the recorded defect "replay applies entries already in the snapshot" (see C01)
                            if findings.is_empty() {
                                findings.push(Violation::new(&format!("{}.history_entry_twice_after_replay", id), format!("node {}: history entry (id {}, key {}) appears twice: entries newer than the snapshot header index were already contained in the snapshot and are applied again by the start-up replay", n.id, hid, k)));
                            }
                        }
                    } else {
                        by_id.insert(*hid, (k.clone(), content.clone()));
                        if let Some(p) = prev {
                            if p <= *hid && sim::counter("fault.kill") > 0 {
                                // same recorded defect as duplicate ids after a kill -9 restart: the history-id section acknowledged before
                                // its log write completed is lost, later publishes get ids below ones already stamped
                                if findings.is_empty() {
                                    findings.push(Violation::new(&format!("{}.duplicate_after_kill_restart", id), format!("node {}: key {} history ids (newest first) not decreasing: {} then {}; the run contains {} kill -9 restart(s) ({} issued-but-uncompleted file writes discarded)", n.id, k, p, hid, sim::counter("fault.kill"), sim::counter("disk.lost_on_crash"))));
                                }
                            } else {
                                if p <= *hid {
                                    c19fail!("history_order", "node {}: key {} history ids (newest first) not decreasing: {} then {}", n.id, k, p, hid);
                                }
                            }
                        }
                    }
                    prev = Some(*hid);
                }
            }
            digest ^= obs_digest(&o);
        }
        Ok(())
    }
    .await;
    let nrec = recs.borrow().len();
    let info = RunInfo { digest, nontrivial: nrec >= 4, info: json!({"requests": nrec}), findings };
    for n in live_nodes() {
        kill_node(n.id).await;
    }
    ExecResult { violation: r.err(), info }
}

impl Check for C19 {
    fn id(&self) -> &'static str {
        "C19"
    }
    fn generate(&self, seed: u64, _tier: Tier) -> Value {
        let mut rng = Rng::derive(seed, "C19.gen", 0);
        let mut cfg = NCfg::default();
        cfg.nodes = if rng.chance(0.4) { 3 } else { 1 };
        cfg.node.snapshot_log_size = if cfg.nodes == 1 { rng.range(5, 40) } else { *rng.pick(&[15u64, 10_000]) };
        if cfg.nodes == 1 && rng.chance(0.5) {
            cfg.disk_p_delay = *rng.pick(&[0.05, 0.3]);
            cfg.disk_max_delay_us = *rng.pick(&[200u64, 5_000, 50_000]);
        }
        let n = rng.range(10, 70);
        // a third of the runs is paced: no two sequence requests overlap, so that ids going backwards cannot be put down
        // to the recorded out-of-order range defect
        let paced = Rng::derive(seed, "C19.paced", 0).chance(0.33);
        let mut steps = vec![];
        for _ in 0..n {
            let node = rng.range(1, cfg.nodes);
            let r = rng.below(100);
            let st = if r < 40 {
                WStep::SeqNext { node, key: rng.below(3) as u8, n: *rng.pick(&[1u8, 1, 2, 3, 5, 40, 120]) }
            } else if r < 45 && !paced {
                let k = rng.range(2, 6) as u8;
                WStep::SeqBurst { node, key: rng.below(3) as u8, k, pos: rng.below(k as u64 + 1) as u8, range_len: *rng.pick(&[1u8, 50, 100, 120]), then: *rng.pick(&[0u16, 30, 150, 450]) }
            } else if r < 60 {
                WStep::SeqRange { node, key: rng.below(3) as u8, len: *rng.pick(&[1u8, 2, 50, 99, 100, 101, 120]) }
            } else if r < 79 {
                WStep::CfgSet { node, t: rng.below(2) as u8, g: 0, d: rng.below(3) as u8, size: 10, same: rng.chance(0.1), typ: 0, desc: 0 }
            } else if r < 82 {
                // an import record (history ids drawn from the config actor, full value written through raft)
                WStep::Import { node, t: rng.below(2) as u8, g: 0, d: rng.below(3) as u8, inter: rng.chance(0.6) }
            } else if r < 88 {
                WStep::KillRestart { node }
            } else if r < 94 {
                WStep::Restart { node }
            } else {
                WStep::Advance { ms: *rng.pick(&[50u64, 600, 3000]) }
            };
            steps.push(st);
        }
        // half of the 3-node runs: a leader change under client load, and back (history ids of three leaderships)
        let mut rh = Rng::derive(seed, "C19.handover", 0);
        if cfg.nodes == 3 && rh.chance(0.5) {
            // (no compaction in these runs: the nodes' complete logs are the evidence that tells the dependency's
            // skipped-apply defect at a leader change apart from a defect of the id logic)
            cfg.node.snapshot_log_size = 10_000;
            let at = rh.below(steps.len() as u64 + 1) as usize;
            steps.insert(at, WStep::LeaderHandover { during: *rh.pick(&[1u8, 2, 4]), after: *rh.pick(&[2u8, 5, 8]), back: *rh.pick(&[0u8, 3, 6]) });
        }
        json!({"check": "C19", "seed": seed, "cfg": cfg, "paced": paced, "steps": steps})
    }
    fn execute(&self, script: Value) -> LocalFut<ExecResult> {
        Box::pin(exec_c19(script))
    }
}

// ---------------------------------------------------------------------------
// C09: config store semantics - last write wins, md5 matches content, listings match the store

pub struct C09;

pub async fn exec_c09(script: Value) -> ExecResult {
    use crate::http::*;
    use actix_web::web::Data;
    use actix_web::App;
    use rnacos::openapi::middle::auth_middle::ApiCheckAuth;
    use rnacos::web_config::app_config;
    use std::ops::Deref;
    let id = "C09";
    let seed = script["seed"].as_u64().unwrap_or(1);
    let cfg: NCfg = serde_json::from_value(script["cfg"].clone()).unwrap_or_default();
    let steps: Vec<WStep> = match serde_json::from_value(script["steps"].clone()) {
        Ok(s) => s,
        Err(e) => return ExecResult { violation: Some(Violation::new("harness.script", e.to_string())), info: RunInfo::default() },
    };
    tokio::fs::with_disk(|d| {
        d.journal_on = false;
        d.log_ops = false;
    });
    net_reset(seed, cfg.net.clone());
    let root = run_root(seed);
    let mut rng = Rng::derive(seed, "C09.exec", 0);
    let mut digest = 0u64;
    let mut nchecks = 0u64;
    let r: VResult<()> = async {
        let n = start_node(&root, 1, true, None, &cfg.node).await.map_err(|e| Violation::new("harness.start", e.to_string()))?;
        vensure!(wait_leader(&n, 20_000).await.is_some(), &format!("{}.no_leader", id), "single node did not become leader");
        advance(16_000).await;
        let app = api_app!(n);
        let mut m = WModel::default();
        for (i, st) in steps.iter().enumerate() {
            let out = do_step(&n, st, &mut m, 30_000).await;
            match out {
                OpOutcome::Timeout => vfail!(&format!("{}.op_hang", id), "step {} {:?} did not answer", i, st),
                OpOutcome::Err(e) => vfail!(&format!("{}.op_failed", id), "step {} {:?} failed on a fault-free single node: {}", i, st, e),
                _ => {}
            }
            let (t, g, d) = match st {
                WStep::CfgSet { t, g, d, .. } | WStep::CfgDel { t, g, d, .. } => (*t, *g, *d),
                _ => continue,
            };
            let when = format!("after step {} ({:?})", i, st);
            let ks = key_str(t, g, d);
            // (1) read-your-write through the actor and through the HTTP handler
            let got = cfg_get(&n, cfg_key(t, g, d)).await.map_err(|e| Violation::new(&format!("{}.get_failed", id), e.to_string()))?;
            let want = m.cfg.get(&ks);
            match (want, &got) {
                (None, None) => {}
                (None, Some(v)) => vfail!(&format!("{}.removed_still_served", id), "{}: key {} was removed but GET returns {}", when, ks, trunc(&v.0)),
                (Some(e), None) => vfail!(&format!("{}.not_found", id), "{}: key {} was published ({}) but GET returns not-found", when, ks, trunc(&e.content)),
                (Some(e), Some(v)) => {
                    vensure!(v.0 == e.content, &format!("{}.content", id), "{}: key {} serves {} but the last publish was {}", when, ks, trunc(&v.0), trunc(&e.content));
                    let md5 = format!("{:x}", md5::compute(e.content.as_bytes()));
                    vensure!(v.1 == md5, &format!("{}.md5", id), "{}: key {} md5 {} but md5(content) = {}", when, ks, v.1, md5);
                    vensure!(v.2 == e.typ && v.3 == e.desc, &format!("{}.type_desc", id), "{}: key {} type/desc {:?}/{:?}, published {:?}/{:?}", when, ks, v.2, v.3, e.typ, e.desc);
                }
            }
            let uri = format!("/nacos/v1/cs/configs?dataId={}&group={}&tenant={}", urlencode(DATA_IDS[d as usize % DATA_IDS.len()]), urlencode(GROUPS[g as usize % 2]), urlencode(TENANTS[t as usize % 3]));
            let resp = call(&app, "GET", &uri, &[], None).await;
            match want {
                None => vensure!(resp.status == 404, &format!("{}.http_removed_still_served", id), "{}: HTTP GET {} answers {} for a removed key", when, uri, resp.status),
                Some(e) => {
                    vensure!(resp.status == 200 && resp.text() == e.content, &format!("{}.http_content", id), "{}: HTTP GET {} answers {} with {} but the last publish was {}", when, uri, resp.status, trunc(&resp.text()), trunc(&e.content));
                    let md5 = format!("{:x}", md5::compute(e.content.as_bytes()));
                    let h = resp.headers.iter().find(|(k, _)| k == "content-md5").map(|(_, v)| v.clone());
                    vensure!(h.as_deref() == Some(md5.as_str()), &format!("{}.http_md5", id), "{}: HTTP content-md5 {:?} but md5(content) = {}", when, h, md5);
                }
            }
            // (2) listing with a PRNG filter and page size: every stored key exactly once, correct totals
            let tenant = TENANTS[rng.below(3) as usize];
            let gf = rng.below(3);
            let df = rng.below(3);
            let group_exact = if gf == 1 { Some(GROUPS[rng.below(2) as usize].to_string()) } else { None };
            let group_like = if gf == 2 { Some(rng.pick(&["g", "GROUP", "2", "DEFAULT_GROUP"]).to_string()) } else { None };
            let data_exact = if df == 1 { Some(DATA_IDS[rng.below(6) as usize].to_string()) } else { None };
            let data_like = if df == 2 { Some(rng.pick(&["app", ".yaml", "a", "conf", "x", "yaml.b", "app.yaml", "p.y"]).to_string()) } else { None };
            let mut want_keys: Vec<(String, String, String)> = vec![];
            for (k, _) in &m.cfg {
                let parts: Vec<&str> = k.split('|').collect();
                if parts[0] != tenant {
                    continue;
                }
                if let Some(ge) = &group_exact {
                    if parts[1] != ge {
                        continue;
                    }
                }
                if let Some(gl) = &group_like {
                    if !parts[1].contains(gl.as_str()) {
                        continue;
                    }
                }
                if let Some(de) = &data_exact {
                    if parts[2] != de {
                        continue;
                    }
                }
                if let Some(dl) = &data_like {
                    if !parts[2].contains(dl.as_str()) {
                        continue;
                    }
                }
                want_keys.push((parts[0].to_string(), parts[1].to_string(), parts[2].to_string()));
            }
            want_keys.sort();
            let limit = rng.range(1, 7) as usize;
            let mut seen: Vec<(String, String, String)> = vec![];
            let mut offset = 0usize;
            loop {
                let p = rnacos::config::config_index::ConfigQueryParam {
                    tenant: Some(Arc::new(tenant.to_string())),
                    group: group_exact.clone().map(Arc::new),
                    data_id: data_exact.clone().map(Arc::new),
                    like_group: group_like.clone(),
                    like_data_id: data_like.clone(),
                    namespace_privilege: rnacos::common::model::privilege::NamespacePrivilegeGroup::new(rnacos::common::model::privilege::PrivilegeGroup::all()),
                    query_context: true,
                    offset,
                    limit,
                };
                let (total, page) = match n.app.config_addr.send(rnacos::config::core::ConfigCmd::QueryPageInfo(Box::new(p))).await {
                    Ok(Ok(rnacos::config::core::ConfigResult::ConfigInfoPage(total, list))) => (total, list),
                    _ => vfail!(&format!("{}.list_failed", id), "{}: listing failed", when),
                };
                vensure!(total == want_keys.len(), &format!("{}.list_total", id), "{}: listing tenant={:?} group={:?}/{:?} dataId={:?}/{:?} reports total {} at offset {} but {} keys match", when, tenant, group_exact, group_like, data_exact, data_like, total, offset, want_keys.len());
                vensure!(page.len() <= limit, &format!("{}.list_page", id), "{}: page of {} items for limit {}", when, page.len(), limit);
                for c in &page {
                    let k = (c.tenant.as_ref().clone(), c.group.as_ref().clone(), c.data_id.as_ref().clone());
                    // content delivered with the listing equals the stored content
                    if let Some(e) = m.cfg.get(&format!("{}|{}|{}", k.0, k.1, k.2)) {
                        if let Some(c2) = &c.content {
                            vensure!(c2.as_str() == e.content, &format!("{}.list_content", id), "{}: listing delivers {} for {:?} but the store holds {}", when, trunc(c2), k, trunc(&e.content));
                        }
                    }
                    seen.push(k);
                }
                offset += limit;
                if page.is_empty() || offset >= total + limit {
                    break;
                }
            }
            let mut sorted = seen.clone();
            sorted.sort();
            let dedup_len = {
                let mut d2 = sorted.clone();
                d2.dedup();
                d2.len()
            };
            vensure!(dedup_len == sorted.len(), &format!("{}.list_duplicate", id), "{}: a key appears more than once over the pages (limit {}): {:?}", when, limit, seen);
            vensure!(sorted == want_keys, &format!("{}.list_mismatch", id), "{}: listing tenant={:?} group={:?}/{:?} dataId={:?}/{:?} over pages of {} returns {:?} but the store holds {:?}", when, tenant, group_exact, group_like, data_exact, data_like, limit, sorted, want_keys);
            nchecks += 1;
            // the HTTP search endpoint agrees on the total
            let mode = if group_like.is_some() || data_like.is_some() { "blur" } else { "accurate" };
            let uri = format!(
                "/nacos/v1/cs/configs?search={}&tenant={}&group={}&dataId={}&pageNo=1&pageSize={}",
                mode,
                urlencode(tenant),
                urlencode(group_exact.as_deref().or(group_like.as_deref()).unwrap_or("")),
                urlencode(data_exact.as_deref().or(data_like.as_deref()).unwrap_or("")),
                limit
            );
            // (the HTTP endpoint treats both filters as exact or both as substring patterns)
            let mixed = (group_like.is_some() && data_exact.is_some()) || (group_exact.is_some() && data_like.is_some());
            let resp = call(&app, "GET", &uri, &[], None).await;
            if let (false, Ok(v)) = (mixed, serde_json::from_slice::<Value>(&resp.body)) {
                if let Some(tc) = v["totalCount"].as_u64() {
                    vensure!(tc as usize == want_keys.len(), &format!("{}.http_list_total", id), "{}: HTTP {} reports totalCount {} but {} keys match", when, uri, tc, want_keys.len());
                }
            }
            // (3) history of the touched key with PRNG paging
            if let Some(e) = want {
                let mut wanth: Vec<String> = e.history.clone();
                wanth.reverse();
                wanth.truncate(100);
                let lim = rng.range(1, 30) as i64;
                let off = rng.range(0, 5) as i64;
                let (total, page) = cfg_history(&n, (t, g, d), lim, off).await.map_err(|e| Violation::new(&format!("{}.history_failed", id), e.to_string()))?;
                vensure!(total == wanth.len(), &format!("{}.history_total", id), "{}: history of {} reports {} entries, expected {} (one per content change, capped at 100)", when, ks, total, wanth.len());
                let exp: Vec<String> = wanth.iter().skip(off as usize).take(lim as usize).cloned().collect();
                let have: Vec<String> = page.iter().map(|x| x.1.clone()).collect();
                vensure!(have == exp, &format!("{}.history_page", id), "{}: history page (offset {}, limit {}) of {} is {:?}, expected {:?}", when, off, lim, ks, have.iter().map(|s| trunc(s)).collect::<Vec<_>>(), exp.iter().map(|s| trunc(s)).collect::<Vec<_>>());
                if e.history.len() > 100 {
                    sim::count("probe.history_cap_reached", 1);
                }
            }
        }
        let o = observe(&n, "fin").await.map_err(|e| Violation::new(&format!("{}.observe_failed", id), e.to_string()))?;
        check_cfg_model(id, &o, &m, "at the end")?;
        digest = obs_digest(&o);
        Ok(())
    }
    .await;
    let info = RunInfo { digest, nontrivial: nchecks >= 5, info: json!({"listing_checks": nchecks}), findings: vec![] };
    for n in live_nodes() {
        kill_node(n.id).await;
    }
    ExecResult { violation: r.err(), info }
}

impl Check for C09 {
    fn id(&self) -> &'static str {
        "C09"
    }
    fn generate(&self, seed: u64, _tier: Tier) -> Value {
        let mut rng = Rng::derive(seed, "C09.gen", 0);
        let mut cfg = NCfg::default();
        cfg.nodes = 1;
        cfg.node.snapshot_log_size = 10_000;
        let n = rng.range(8, 80);
        let mut steps = vec![];
        let hammer = if rng.chance(0.08) { Some((rng.below(3) as u8, rng.below(2) as u8, rng.below(5) as u8)) } else { None };
        for _ in 0..n {
            let t = rng.below(3) as u8;
            let g = rng.below(2) as u8;
            let d = rng.below(6) as u8;
            if rng.chance(0.8) {
                steps.push(WStep::CfgSet { node: 1, t, g, d, size: *rng.pick(&[0u32, 1, 10, 40, 200, 5000, 200_000]), same: rng.chance(0.2), typ: rng.below(4) as u8, desc: rng.below(3) as u8 });
            } else {
                steps.push(WStep::CfgDel { node: 1, t, g, d });
            }
        }
        if let Some((t, g, d)) = hammer {
            // more than 100 content changes on one key: the history cap
            for _ in 0..rng.range(101, 130) {
                steps.push(WStep::CfgSet { node: 1, t, g, d, size: 5, same: false, typ: 0, desc: 0 });
            }
        }
        json!({"check": "C09", "seed": seed, "cfg": cfg, "steps": steps})
    }
    fn execute(&self, script: Value) -> LocalFut<ExecResult> {
        Box::pin(exec_c09(script))
    }
}

// ---------------------------------------------------------------------------
// C10: config change notification is complete

pub struct C10;

#[derive(Serialize, Deserialize, Clone, Debug, PartialEq)]
#[serde(tag = "op")]
pub enum LStep10 {
    /// HTTP long poll on keys; held md5 per key: 0 = current, 1 = stale (md5 of something else), 2 = empty
    Listen { keys: Vec<u8>, held: Vec<u8>, timeout_ms: u64, gap_ms: u64 },
    Sub { client: u8, keys: Vec<u8>, held: Vec<u8> },
    Unsub { client: u8, keys: Vec<u8> },
    Close { client: u8 },
    Pub { k: u8, same: bool, gap_ms: u64 },
    Del { k: u8, gap_ms: u64 },
    Advance { ms: u64 },
}

#[derive(Clone, Debug)]
struct Change {
    t_us: u64,
    seq: u64,
    /// event sequence number when the publish / remove returned
    seq_end: u64,
    k: u8,
    md5: String,
}

#[derive(Clone, Debug)]
struct LRec {
    step: usize,
    items: Vec<(u8, String)>,
    t0: u64,
    seq0: u64,
    t1: Option<u64>,
    seq1: u64,
    status: u16,
    keys_named: Vec<u8>,
    timeout_eff_ms: u64,
}

fn md5_of(c: &Option<String>) -> String {
    match c {
        Some(c) => format!("{:x}", md5::compute(c.as_bytes())),
        None => String::new(),
    }
}

pub async fn exec_c10(script: Value) -> ExecResult {
    use crate::http::*;
    use actix_web::web::Data;
    use actix_web::App;
    use rnacos::grpc::{PayloadHandler, PayloadUtils, RequestMeta};
    use rnacos::openapi::middle::auth_middle::ApiCheckAuth;
    use rnacos::web_config::app_config;
    use std::cell::RefCell;
    use std::ops::Deref;
    use std::rc::Rc as LRc;
    let id = "C10";
    let seed = script["seed"].as_u64().unwrap_or(1);
    let cfg: NCfg = serde_json::from_value(script["cfg"].clone()).unwrap_or_default();
    let steps: Vec<LStep10> = match serde_json::from_value(script["steps"].clone()) {
        Ok(s) => s,
        Err(e) => return ExecResult { violation: Some(Violation::new("harness.script", e.to_string())), info: RunInfo::default() },
    };
    tokio::fs::with_disk(|d| {
        d.journal_on = false;
        d.log_ops = false;
    });
    net_reset(seed, cfg.net.clone());
    let root = run_root(seed);
    let notifs: LRc<RefCell<Vec<(u64, u64, String, Vec<String>)>>> = LRc::new(RefCell::new(vec![]));
    {
        let n2 = notifs.clone();
        rnacos::verif_hook::set_tap(Box::new(move |name: &str, detail: String| {
            if name == "config_notify" {
                let mut it = detail.splitn(2, '|');
                let key = it.next().unwrap_or("").to_string();
                let clients: Vec<String> = it.next().unwrap_or("").split(',').filter(|s| !s.is_empty()).map(|s| s.to_string()).collect();
                n2.borrow_mut().push((sim::now_us(), sim::ev_seq(), key, clients));
            }
        }));
    }
    let lrecs: LRc<RefCell<Vec<LRec>>> = LRc::new(RefCell::new(vec![]));
    let mut digest = 0u64;
    let r: VResult<()> = async {
        // 3-node variant: every client (listeners, subscribers, publishers) talks to one follower, so that a
        // publish is forwarded to the leader, kept as a temporary value and reported when the entry applies locally
        let cluster = cfg.nodes > 1;
        let n = if cluster {
            cluster_up(&root, &cfg, id).await?;
            let at = script["at"].as_u64().unwrap_or(2);
            let leader = majority_leader().unwrap_or(1);
            let at = if at == leader { (1..=cfg.nodes).find(|x| *x != leader).unwrap_or(at) } else { at };
            sim::count("probe.clients_on_follower", 1);
            node(at).ok_or_else(|| Violation::new("harness.start", "client node missing".to_string()))?
        } else {
            let n = start_node(&root, 1, true, None, &cfg.node).await.map_err(|e| Violation::new("harness.start", e.to_string()))?;
            vensure!(wait_leader(&n, 20_000).await.is_some(), &format!("{}.no_leader", id), "single node did not become leader");
            advance(16_000).await;
            n
        };
        let app = LRc::new(api_app!(n));
        let mut cur: BTreeMap<u8, Option<String>> = BTreeMap::new();
        let mut changes: Vec<Change> = vec![];
        let mut uniq = 0u64;
        // subscriptions: client -> key -> (from seq, until seq)
        let mut subs: BTreeMap<(u8, u8), (u64, Option<u64>)> = BTreeMap::new();
        let mut sub_windows: Vec<(u8, u8, u64, u64, u64)> = vec![];
        let mut handles = vec![];
        let mut notif_done = 0usize;
        let data_id = |k: u8| DATA_IDS[(k % 4) as usize];
        // what an SDK does on a change notification: query the key and listen again with the md5 it now
        // holds (the server drops the subscriptions of a key when the key is removed). It reacts as soon as
        // the push arrives, i.e. also in the middle of a gap between two steps.
        macro_rules! sdk_react {
            () => {{

                let new: Vec<(String, Vec<String>)> = notifs.borrow().iter().skip(notif_done).map(|x| (x.2.clone(), x.3.clone())).collect();
                notif_done = notifs.borrow().len();
                for (key, clients) in new {
                    let k = match (0..4u8).find(|k| cfg_key(0, 0, *k).build_key() == key) {
                        Some(k) => k,
                        None => continue,
                    };
                    for cl in clients {
                        let c: u8 = cl.trim_start_matches("1_conn").parse().unwrap_or(9);
                        if !subs.contains_key(&(c, k)) {
                            continue;
                        }
                        let md5 = md5_of(&cur.get(&k).cloned().flatten());
                        let req = json!({"listen": true, "configListenContexts": [{"dataId": data_id(k), "group": "DEFAULT_GROUP", "tenant": "", "md5": md5}]});
                        let payload = PayloadUtils::build_payload("ConfigBatchListenRequest", req.to_string());
                        let meta = RequestMeta { connection_id: Arc::new(cl.clone()), client_ip: "10.2.0.9".to_string(), ..Default::default() };
                        let _ = n.invoker.handle(payload, meta).await;
                        sim::count("probe.sdk_relisten_after_notify", 1);
                    }
                }
            }};
        }
        macro_rules! adv {
            ($ms:expr) => {{
                let mut rest: u64 = $ms;
                loop {
                    let slice = rest.min(100);
                    advance(slice).await;
                    rest -= slice;
                    sdk_react!();
                    if rest == 0 {
                        break;
                    }
                }
            }};
        }
        for (i, st) in steps.iter().enumerate() {
            sim::event(&format!("step {} {}", i, serde_json::to_string(st).unwrap_or_default()));
            match st {
                LStep10::Listen { keys, held, timeout_ms, gap_ms } => {
                    let mut items = vec![];
                    let mut body = String::new();
                    for (j, k) in keys.iter().enumerate() {
                        let k = *k % 4;
                        let c = cur.get(&k).cloned().flatten();
                        let md5 = match held.get(j).copied().unwrap_or(0) {
                            0 => md5_of(&c),
                            1 => format!("{:x}", md5::compute(format!("stale{}", i).as_bytes())),
                            _ => String::new(),
                        };
                        items.push((k, md5.clone()));
                        body.push_str(&format!("{}\u{2}{}\u{2}{}\u{1}", data_id(k), "DEFAULT_GROUP", md5));
                    }
                    let form = serde_urlencoded::to_string([("Listening-Configs", body.as_str())]).unwrap_or_default();
                    let idx = {
                        let mut l = lrecs.borrow_mut();
                        l.push(LRec { step: i, items, t0: sim::now_us(), seq0: sim::ev_seq(), t1: None, seq1: u64::MAX, status: 0, keys_named: vec![], timeout_eff_ms: (*timeout_ms).clamp(10_000, 120_000) - 500 });
                        l.len() - 1
                    };
                    let app2 = app.clone();
                    let lrecs2 = lrecs.clone();
                    let to = timeout_ms.to_string();
                    handles.push(actix_rt::spawn(async move {
                        let resp = call(&*app2, "POST", "/nacos/v1/cs/configs/listener", &[("Long-Pulling-Timeout", to.as_str())], Some(("application/x-www-form-urlencoded", form.into_bytes()))).await;
                        let mut l = lrecs2.borrow_mut();
                        let rec = &mut l[idx];
                        rec.t1 = Some(sim::now_us());
                        rec.seq1 = sim::ev_seq();
                        rec.status = resp.status;
                        let text = resp.text();
                        let decoded: String = serde_urlencoded::from_str::<Vec<(String, String)>>(&format!("x={}", text)).ok().and_then(|v| v.into_iter().next()).map(|x| x.1).unwrap_or(text);
                        for part in decoded.split('\u{1}') {
                            let f: Vec<&str> = part.split('\u{2}').collect();
                            if f.len() >= 2 {
                                if let Some(p) = DATA_IDS.iter().position(|d| *d == f[0]) {
                                    rec.keys_named.push(p as u8);
                                }
                            }
                        }
                        sim::event(&format!("listener {} answered {:?}", idx, rec.keys_named));
                    }));
                    adv!(*gap_ms);
                }
                LStep10::Sub { client, keys, .. } | LStep10::Unsub { client, keys } => {
                    let is_sub = matches!(st, LStep10::Sub { .. });
                    let held_v: Vec<u8> = if let LStep10::Sub { held, .. } = st { held.clone() } else { vec![] };
                    let mut ctxs = vec![];
                    for (j, k) in keys.iter().enumerate() {
                        let k = *k % 4;
                        let c = cur.get(&k).cloned().flatten();
                        let md5 = match held_v.get(j).copied().unwrap_or(0) {
                            0 => md5_of(&c),
                            1 => "0123456789abcdef0123456789abcdef".to_string(),
                            _ => String::new(),
                        };
                        ctxs.push(json!({"dataId": data_id(k), "group": "DEFAULT_GROUP", "tenant": "", "md5": md5}));
                    }
                    let req = json!({"listen": is_sub, "configListenContexts": ctxs});
                    let payload = PayloadUtils::build_payload("ConfigBatchListenRequest", req.to_string());
                    let cid = Arc::new(format!("1_conn{}", client % 3));
                    let meta = RequestMeta { connection_id: cid.clone(), client_ip: "10.2.0.9".to_string(), ..Default::default() };
                    // a subscription window opens when the request is sent: the answer to a stale md5 comes during the call,
                    // and other tasks (an answered long poll) may log events before the call returns
                    let seq_sent = sim::ev_seq();
                    let res = n.invoker.handle(payload, meta).await;
                    vensure!(res.map(|r| r.success).unwrap_or(false), &format!("{}.subscribe_failed", id), "step {}: batch listen request refused", i);
                    let seq = sim::ev_seq();
                    for k in keys {
                        let k = *k % 4;
                        if is_sub {
                            subs.entry((*client % 3, k)).or_insert((seq_sent, None));
                        } else if let Some((from, _)) = subs.remove(&(*client % 3, k)) {
                            sub_windows.push((*client % 3, k, from, seq, sim::now_us()));
                        }
                    }
                }
                LStep10::Close { client } => {
                    let cid = Arc::new(format!("1_conn{}", client % 3));
                    n.app.bi_stream_manage.do_send(rnacos::grpc::bistream_manage::BiStreamManageCmd::ConnClose(cid));
                    advance(5).await;
                    let seq = sim::ev_seq();
                    let ks: Vec<(u8, u8)> = subs.keys().filter(|(c, _)| *c == *client % 3).cloned().collect();
                    for key in ks {
                        if let Some((from, _)) = subs.remove(&key) {
                            sub_windows.push((key.0, key.1, from, seq, sim::now_us()));
                        }
                    }
                }
                LStep10::Pub { k, same, gap_ms } => {
                    let k = *k % 4;
                    let content = if *same && cur.get(&k).cloned().flatten().is_some() {
                        cur.get(&k).cloned().flatten().unwrap()
                    } else {
                        uniq += 1;
                        format!("n{}", uniq)
                    };
                    let before = md5_of(&cur.get(&k).cloned().flatten());
                    let seq_before = sim::ev_seq();
                    let req = rnacos::raft::cluster::model::SetConfigReq::new(cfg_key(0, 0, k), Arc::new(content.clone()));
                    match within(20_000, n.app.config_route.set_config(req)).await {
                        Some(Ok(())) => {}
                        other => vfail!(&format!("{}.publish_failed", id), "step {}: publish failed: {:?}", i, other.map(|r| r.map_err(|e| e.to_string()))),
                    }
                    cur.insert(k, Some(content.clone()));
                    let after = md5_of(&Some(content));
                    if after != before {
                        sim::event(&format!("change k{}", k));
                        changes.push(Change { t_us: sim::now_us(), seq: seq_before, seq_end: sim::ev_seq(), k, md5: after });
                    }
                    adv!(*gap_ms);
                }
                LStep10::Del { k, gap_ms } => {
                    let k = *k % 4;
                    let before = md5_of(&cur.get(&k).cloned().flatten());
                    let seq_before = sim::ev_seq();
                    match within(20_000, n.app.config_route.del_config(rnacos::raft::cluster::model::DelConfigReq::new(cfg_key(0, 0, k)))).await {
                        Some(Ok(())) => {}
                        other => vfail!(&format!("{}.remove_failed", id), "step {}: remove failed: {:?}", i, other.map(|r| r.map_err(|e| e.to_string()))),
                    }
                    cur.insert(k, None);
                    if !before.is_empty() {
                        sim::event(&format!("change k{}", k));
                        changes.push(Change { t_us: sim::now_us(), seq: seq_before, seq_end: sim::ev_seq(), k, md5: String::new() });
                    }
                    adv!(*gap_ms);
                }
                LStep10::Advance { ms } => adv!(*ms),
                _ => {}
            }
            sdk_react!();
        }
        // every long poll ends by itself (at most 120 s)
        for h in handles {
            if within(140_000, h).await.is_none() {
                vfail!(&format!("{}.listener_never_answered", id), "a long-poll listener was not answered within 140 simulated s");
            }
        }
        if cluster {
            // the last change still has to apply on the follower
            adv!(3_000);
        }
        let end_seq = sim::ev_seq();
        for ((c, k), (from, _)) in subs.clone() {
            sub_windows.push((c, k, from, end_seq, u64::MAX));
        }
        // long-poll obligations
        // on a follower the change is reported when the committed entry applies there: one more replication round
        let slack_us = if cluster { 2_500_000u64 } else { 700_000u64 };
        for (li, l) in lrecs.borrow().iter().enumerate() {
            let t1 = match l.t1 {
                Some(t) => t,
                None => vfail!(&format!("{}.listener_never_answered", id), "listener {} (step {}) never returned", li, l.step),
            };
            vensure!(l.status == 200, &format!("{}.listener_status", id), "listener {} (step {}) got HTTP status {}", li, l.step, l.status);
            // md5 current at accept time
            let md5_at = |k: u8, seq: u64| -> String {
                changes.iter().filter(|c| c.k == k && c.seq < seq).last().map(|c| c.md5.clone()).unwrap_or_default()
            };
            let stale: Vec<u8> = l.items.iter().filter(|(k, held)| md5_at(*k, l.seq0) != *held).map(|(k, _)| *k).collect();
            if !stale.is_empty() {
                vensure!(t1 <= l.t0 + slack_us, &format!("{}.stale_not_immediate", id), "listener {} (step {}) held a stale md5 for keys {:?} when it registered but was answered only after {} ms", li, l.step, stale, (t1 - l.t0) / 1000);
                for k in &stale {
                    vensure!(l.keys_named.contains(k), &format!("{}.stale_key_not_named", id), "listener {} (step {}) held a stale md5 for key {} but the answer names only {:?}", li, l.step, k, l.keys_named);
                }
                sim::count("probe.listener_stale_at_accept", 1);
                continue;
            }
            // first later change of a listened key
            // (a listener that had already been answered - e.g. woken by the removal of an absent key - owes nothing)
            let first = changes.iter().filter(|c| c.seq >= l.seq0 && c.seq < l.seq1 && (!cluster || c.seq_end <= l.seq1) && l.items.iter().any(|(k, held)| *k == c.k && *held != c.md5)).next();
            let deadline = l.t0 + l.timeout_eff_ms * 1000;
            match first {
                Some(c) if c.t_us <= deadline => {
                    vensure!(t1 <= c.t_us + slack_us, &format!("{}.change_not_reported", id), "listener {} (step {}) was waiting on key {} when it changed at t={} ms but was answered only at t={} ms (timeout would have been at {} ms)", li, l.step, c.k, c.t_us / 1000, t1 / 1000, deadline / 1000);
                    // on a follower the change becomes visible with the local apply, some time after the publish returned: an
                    // answer given inside that window and triggered by another key's notification need not name this key yet
                    // (the client's next poll holds a stale md5 and is answered at once)
                    let other_trigger = cluster && !l.keys_named.is_empty() && t1 <= c.t_us + slack_us;
                    if other_trigger && !l.keys_named.contains(&c.k) {
                        sim::count("probe.follower_answer_triggered_by_other_key", 1);
                    }
                    vensure!(l.keys_named.contains(&c.k) || other_trigger, &format!("{}.change_not_named", id), "listener {} (step {}): key {} changed while it was waiting, the answer names {:?}", li, l.step, c.k, l.keys_named);
                    sim::count("probe.listener_woken_by_change", 1);
                }
                _ => {
                    vensure!(t1 <= deadline + 500_000 + slack_us, &format!("{}.timeout_overrun", id), "listener {} (step {}) with effective timeout {} ms was answered after {} ms", li, l.step, l.timeout_eff_ms, (t1 - l.t0) / 1000);
                    sim::count("probe.listener_timed_out", 1);
                }
            }
        }
        // subscriber obligations: every change of a subscribed key inside the window reaches the client; none after close
        let notifs = notifs.borrow().clone();
        for (c, k, from, until, until_t) in &sub_windows {
            let key_s = cfg_key(0, 0, *k).build_key();
            let client = format!("1_conn{}", c);
            for ch in changes.iter().filter(|ch| ch.k == *k && ch.seq > *from && ch.seq < *until && (!cluster || ch.t_us + slack_us < *until_t)) {
                let hit = notifs.iter().any(|(t, seq, key, clients)| *key == key_s && *seq >= ch.seq && clients.contains(&client) && if cluster { *t <= ch.t_us + slack_us } else { *seq <= ch.seq + 400 });
                vensure!(hit, &format!("{}.subscriber_not_notified", id), "client {} subscribed key {} (events {}..{}); the change at event {} produced no notification for it", client, k, from, until, ch.seq);
                sim::count("probe.subscriber_notified", 1);
            }
        }
        for (_, seq, key, clients) in &notifs {
            for cl in clients {
                // a notification for a client must fall inside one of its windows for that key
                let c: u8 = cl.trim_start_matches("1_conn").parse().unwrap_or(9);
                let ok = sub_windows.iter().any(|(wc, wk, from, until, _)| *wc == c && cfg_key(0, 0, *wk).build_key() == *key && *seq >= *from && *seq <= *until + 5);
                vensure!(ok, &format!("{}.notified_after_unsubscribe", id), "client {} was notified about {} at event {} outside of any subscription window", cl, key.replace('\u{2}', "|"), seq);
            }
        }
        digest = digest_str(&format!("{:?}", lrecs.borrow().iter().map(|l| (l.keys_named.clone(), l.t1.map(|t| t / 100_000))).collect::<Vec<_>>()));
        Ok(())
    }
    .await;
    let nl = lrecs.borrow().len();
    let info = RunInfo { digest, nontrivial: nl >= 2, info: json!({"listeners": nl}), findings: vec![] };
    rnacos::verif_hook::clear_tap();
    for n in live_nodes() {
        kill_node(n.id).await;
    }
    ExecResult { violation: r.err(), info }
}

impl Check for C10 {
    fn id(&self) -> &'static str {
        "C10"
    }
    fn generate(&self, seed: u64, _tier: Tier) -> Value {
        let mut rng = Rng::derive(seed, "C10.gen", 0);
        let mut cfg = NCfg::default();
        let mut rc = Rng::derive(seed, "C10.cluster", 0);
        cfg.nodes = if rc.chance(0.3) { 3 } else { 1 };
        let at = rc.range(2, 3);
        let n = rng.range(6, 40);
        let mut steps = vec![];
        for _ in 0..n {
            let r = rng.below(100);
            let gap = *rng.pick(&[0u64, 0, 1, 3, 50, 700, 4000]);
            let nk = rng.range(1, 4) as usize;
            let keys: Vec<u8> = (0..nk).map(|_| rng.below(4) as u8).collect();
            let held: Vec<u8> = (0..nk).map(|_| *rng.pick(&[0u8, 0, 0, 1, 2])).collect();
            let st = if r < 30 {
                LStep10::Listen { keys, held, timeout_ms: *rng.pick(&[500u64, 10_000, 12_000, 30_000]), gap_ms: gap }
            } else if r < 40 {
                LStep10::Sub { client: rng.below(3) as u8, keys, held }
            } else if r < 44 {
                LStep10::Unsub { client: rng.below(3) as u8, keys }
            } else if r < 48 {
                LStep10::Close { client: rng.below(3) as u8 }
            } else if r < 80 {
                LStep10::Pub { k: rng.below(4) as u8, same: rng.chance(0.15), gap_ms: gap }
            } else if r < 90 {
                LStep10::Del { k: rng.below(4) as u8, gap_ms: gap }
            } else {
                LStep10::Advance { ms: *rng.pick(&[100u64, 1000, 9000, 15000]) }
            };
            steps.push(st);
        }
        json!({"check": "C10", "seed": seed, "cfg": cfg, "steps": steps, "at": at})
    }
    fn execute(&self, script: Value) -> LocalFut<ExecResult> {
        Box::pin(exec_c10(script))
    }
}
