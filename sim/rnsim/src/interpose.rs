//! Clock and OS-randomness seams: the binary defines `clock_gettime`, `getrandom`
//! and `syscall` itself, so std, chrono, rand, uuid and hashbrown all read the
//! simulator's clock and PRNG on a simulation thread. On any other thread the
//! calls are forwarded to the kernel unchanged.
use std::cell::Cell;

pub const EPOCH0_NS: u64 = 1_700_000_000_000_000_000;

thread_local! {
    static SIM_THREAD: Cell<bool> = const { Cell::new(false) };
    static IN_CLOCK: Cell<bool> = const { Cell::new(false) };
    static T0: Cell<Option<tokio::time::Instant>> = const { Cell::new(None) };
    static OS_RNG: Cell<u64> = const { Cell::new(0) };
    /// per-node wall-clock skew is not modelled; one clock for the run
    static CLOCK_OFFSET_NS: Cell<i64> = const { Cell::new(0) };
}

pub fn enter(seed: u64) {
    OS_RNG.with(|r| r.set(seed.wrapping_mul(0x2545_F491_4F6C_DD1D) ^ 0x6f73));
    SIM_THREAD.with(|s| s.set(true));
}

/// call once inside the runtime: from now on wall clock == EPOCH0 + paused tokio clock
pub fn set_t0() {
    T0.with(|t| t.set(Some(tokio::time::Instant::now())));
}

pub fn leave() {
    T0.with(|t| t.set(None));
    SIM_THREAD.with(|s| s.set(false));
}

pub fn clock_jump_ns(delta: i64) {
    CLOCK_OFFSET_NS.with(|c| c.set(c.get() + delta));
}

fn sim_ns() -> u64 {
    IN_CLOCK.with(|g| {
        if g.get() {
            return EPOCH0_NS;
        }
        g.set(true);
        let r = T0.with(|t0| match t0.get() {
            Some(t0) => EPOCH0_NS + tokio::time::Instant::now().saturating_duration_since(t0).as_nanos() as u64,
            None => EPOCH0_NS,
        });
        g.set(false);
        (r as i64 + CLOCK_OFFSET_NS.with(|c| c.get())) as u64
    })
}

/// real monotonic nanoseconds (budgets, throughput) — raw syscall, never simulated
pub fn real_ns() -> u64 {
    let mut ts = libc::timespec { tv_sec: 0, tv_nsec: 0 };
    unsafe {
        raw_syscall(libc::SYS_clock_gettime, libc::CLOCK_MONOTONIC as usize, &mut ts as *mut _ as usize, 0, 0, 0, 0);
    }
    ts.tv_sec as u64 * 1_000_000_000 + ts.tv_nsec as u64
}

#[inline]
unsafe fn raw_syscall(num: libc::c_long, a1: usize, a2: usize, a3: usize, a4: usize, a5: usize, a6: usize) -> isize {
    let ret: isize;
    core::arch::asm!(
        "syscall",
        inlateout("rax") num as isize => ret,
        in("rdi") a1, in("rsi") a2, in("rdx") a3, in("r10") a4, in("r8") a5, in("r9") a6,
        lateout("rcx") _, lateout("r11") _,
        options(nostack)
    );
    ret
}

#[no_mangle]
pub unsafe extern "C" fn clock_gettime(clk: libc::clockid_t, ts: *mut libc::timespec) -> libc::c_int {
    let sim = SIM_THREAD.try_with(|s| s.get()).unwrap_or(false);
    if !sim {
        let r = raw_syscall(libc::SYS_clock_gettime, clk as usize, ts as usize, 0, 0, 0, 0);
        if r < 0 {
            *libc::__errno_location() = (-r) as libc::c_int;
            return -1;
        }
        return 0;
    }
    let ns = sim_ns();
    (*ts).tv_sec = (ns / 1_000_000_000) as i64;
    (*ts).tv_nsec = (ns % 1_000_000_000) as i64;
    0
}

fn next_u64() -> u64 {
    OS_RNG.with(|r| {
        let s = r.get().wrapping_add(0x9E37_79B9_7F4A_7C15);
        r.set(s);
        let mut z = s;
        z = (z ^ (z >> 30)).wrapping_mul(0xBF58_476D_1CE4_E5B9);
        z = (z ^ (z >> 27)).wrapping_mul(0x94D0_49BB_1331_11EB);
        z ^ (z >> 31)
    })
}

#[no_mangle]
pub unsafe extern "C" fn getrandom(buf: *mut u8, len: usize, flags: u32) -> isize {
    let sim = SIM_THREAD.try_with(|s| s.get()).unwrap_or(false);
    if !sim {
        let r = raw_syscall(libc::SYS_getrandom, buf as usize, len, flags as usize, 0, 0, 0);
        if r < 0 {
            *libc::__errno_location() = (-r) as libc::c_int;
            return -1;
        }
        return r;
    }
    for i in 0..len {
        *buf.add(i) = next_u64() as u8;
    }
    len as isize
}

#[no_mangle]
pub unsafe extern "C" fn syscall(num: libc::c_long, a1: usize, a2: usize, a3: usize, a4: usize, a5: usize, a6: usize) -> libc::c_long {
    if num == libc::SYS_getrandom {
        return getrandom(a1 as *mut u8, a2, a3 as u32) as libc::c_long;
    }
    let ret = raw_syscall(num, a1, a2, a3, a4, a5, a6);
    if ret < 0 && ret >= -4095 {
        *libc::__errno_location() = (-ret) as libc::c_int;
        return -1;
    }
    ret as libc::c_long
}
