//! Run harness: one simulated run = one fresh OS thread with a paused-clock
//! current-thread tokio runtime wrapped in an actix System.
use crate::interpose;
use serde::{Deserialize, Serialize};
use serde_json::{json, Value};
use std::collections::BTreeMap;
use std::future::Future;
use std::pin::Pin;
use std::sync::{Arc, Mutex};
use tokio::sim;

pub type LocalFut<T> = Pin<Box<dyn Future<Output = T>>>;

#[derive(Clone, Copy, Debug, PartialEq, Eq)]
pub enum Tier {
    Quick,
    Thorough,
}

#[derive(Clone, Debug, Serialize, Deserialize)]
pub struct Violation {
    pub clause: String,
    pub msg: String,
}

impl Violation {
    pub fn new(clause: &str, msg: impl Into<String>) -> Self {
        Violation {
            clause: clause.to_string(),
            msg: msg.into(),
        }
    }
}

pub type VResult<T> = Result<T, Violation>;

#[macro_export]
macro_rules! vfail {
    ($clause:expr, $($arg:tt)*) => {
        return Err($crate::core::Violation::new($clause, format!($($arg)*)))
    };
}

#[macro_export]
macro_rules! vensure {
    ($cond:expr, $clause:expr, $($arg:tt)*) => {
        if !($cond) {
            return Err($crate::core::Violation::new($clause, format!($($arg)*)));
        }
    };
}

/// What a run reports besides pass/fail.
#[derive(Clone, Debug, Default, Serialize, Deserialize)]
pub struct RunInfo {
    /// digest of the end-of-run observation (distinct-states measure)
    pub digest: u64,
    /// non-trivial by the check's stated rule
    pub nontrivial: bool,
    /// free-form details (kept small)
    pub info: Value,
    /// findings tolerated by the oracle because they match a *signature*; reported upward so
    /// that the driver can match them against known_findings.jsonl (the oracle itself never reads that file)
    #[serde(default)]
    pub findings: Vec<Violation>,
}

pub struct ExecResult {
    pub violation: Option<Violation>,
    pub info: RunInfo,
}

pub trait Check: Sync + Send {
    fn id(&self) -> &'static str;
    /// seeded generation of a script: {"check","seed","cfg":{..},"steps":[..]}
    fn generate(&self, seed: u64, tier: Tier) -> Value;
    /// execute a script inside the simulation thread
    fn execute(&self, script: Value) -> LocalFut<ExecResult>;
    /// simpler variants of one step (argument shrinking); default none
    fn shrink_step(&self, _step: &Value) -> Vec<Value> {
        vec![]
    }
    /// simpler variants of the configuration; default none
    fn shrink_cfg(&self, _cfg: &Value) -> Vec<Value> {
        vec![]
    }
}

#[derive(Clone, Debug, Serialize, Deserialize)]
pub struct Outcome {
    pub check: String,
    pub seed: u64,
    pub ok: bool,
    pub clause: Option<String>,
    pub msg: Option<String>,
    pub ev_hash: String,
    pub ev_count: u64,
    pub sim_us: u64,
    pub wall_us: u64,
    pub counters: BTreeMap<String, u64>,
    pub digest: String,
    pub nontrivial: bool,
    pub steps: usize,
    pub info: Value,
    #[serde(default)]
    pub findings: Vec<Violation>,
    #[serde(skip_serializing_if = "Option::is_none")]
    pub script: Option<Value>,
    #[serde(skip_serializing_if = "Option::is_none")]
    pub ev_tail: Option<Vec<String>>,
    #[serde(skip_serializing_if = "Option::is_none")]
    pub ev_full: Option<Vec<String>>,
    #[serde(skip_serializing_if = "Option::is_none")]
    pub panic: Option<String>,
}

lazy_static::lazy_static! {
    static ref PANICS: Mutex<Vec<String>> = Mutex::new(Vec::new());
}

pub fn install_panic_hook() {
    std::panic::set_hook(Box::new(|info| {
        let loc = info.location().map(|l| format!("{}:{}", l.file(), l.line())).unwrap_or_default();
        let msg = if let Some(s) = info.payload().downcast_ref::<&str>() {
            s.to_string()
        } else if let Some(s) = info.payload().downcast_ref::<String>() {
            s.clone()
        } else {
            "?".to_string()
        };
        let line = format!("{} @ {}", msg, loc);
        if let Ok(mut p) = PANICS.lock() {
            p.push(line);
        }
    }));
}

pub fn take_panics() -> Vec<String> {
    PANICS.lock().map(|mut p| std::mem::take(&mut *p)).unwrap_or_default()
}

pub fn panics_so_far() -> usize {
    PANICS.lock().map(|p| p.len()).unwrap_or(0)
}

pub fn peek_panics() -> Vec<String> {
    PANICS.lock().map(|p| p.clone()).unwrap_or_default()
}

/// Root of the real directories that hold only `db_lock` files.
pub fn run_root(seed: u64) -> String {
    format!("/dev/shm/rnsim/{}/{}", std::process::id(), seed)
}

/// Execute `script` with `check` in a fresh simulation thread.
pub fn run_script(check: &'static dyn Check, script: Value, keep_full_log: bool) -> Outcome {
    let seed = script.get("seed").and_then(|v| v.as_u64()).unwrap_or(1);
    let steps = script.get("steps").and_then(|v| v.as_array()).map(|a| a.len()).unwrap_or(0);
    let id = check.id().to_string();
    let t_start = interpose::real_ns();
    take_panics();
    let script2 = script.clone();
    let result: Arc<Mutex<Option<(ExecResult, (u64, u64, Vec<String>, BTreeMap<String, u64>, Option<Vec<String>>), u64)>>> = Arc::new(Mutex::new(None));
    let result2 = result.clone();
    let root = run_root(seed);
    let _ = std::fs::remove_dir_all(&root);
    let th = std::thread::Builder::new()
        .name(format!("sim-{}", seed))
        .stack_size(256 * 1024 * 1024)
        .spawn(move || {
            interpose::enter(seed);
            let sys = actix_rt::System::with_tokio_rt(|| {
                tokio::runtime::Builder::new_current_thread()
                    .enable_all()
                    .start_paused(true)
                    .build()
                    .unwrap()
            });
            let r = sys.block_on(async move {
                interpose::set_t0();
                sim::reset(seed, keep_full_log);
                tokio::fs::reset(seed, Default::default());
                rnacos::verif_hook::clear_transport();
                rnacos::verif_hook::clear_tap();
                rnacos::verif_hook::set_log_knob(0, 0);
                let r = check.execute(script2).await;
                let sim_us = sim::now_us();
                (r, sim::snapshot(), sim_us)
            });
            interpose::leave();
            *result2.lock().unwrap() = Some(r);
        })
        .expect("spawn sim thread");
    let joined = th.join();
    let _ = std::fs::remove_dir_all(&root);
    let wall_us = (interpose::real_ns() - t_start) / 1000;
    let panics = take_panics();
    let got = result.lock().unwrap().take();
    match (joined, got) {
        (Ok(()), Some((mut r, (ev_hash, ev_count, ev_tail, counters, ev_full), sim_us))) => {
            // a panic raised by harness code inside some task (tokio catches it, the task just ends) is a harness error
            if let Some(p) = panics.iter().find(|p| p.contains("rnsim/src/") || p.contains("simtokio/src/")) {
                r.violation = Some(Violation::new("harness.panic_in_harness_task", p.clone()));
            }
            let ok = r.violation.is_none();
            Outcome {
                check: id,
                seed,
                ok,
                clause: r.violation.as_ref().map(|v| v.clause.clone()),
                msg: r.violation.as_ref().map(|v| v.msg.clone()),
                ev_hash: format!("{:016x}", ev_hash),
                ev_count,
                sim_us,
                wall_us,
                counters,
                digest: format!("{:016x}", r.info.digest),
                nontrivial: r.info.nontrivial,
                steps,
                info: r.info.info,
                findings: r.info.findings,
                script: if ok { None } else { Some(script) },
                ev_tail: if ok { None } else { Some(ev_tail) },
                ev_full,
                panic: if panics.is_empty() { None } else { Some(panics.join(" | ")) },
            }
        }
        _ => Outcome {
            check: id.clone(),
            seed,
            ok: false,
            // a panic raised by the code under test on the simulation thread itself (a codec or store function called
            // directly by the check) is that code's failure, not the harness's
            clause: Some(if panics.iter().any(|p| p.contains("/repo/src/")) && !panics.iter().any(|p| p.contains("rnsim/src/") || p.contains("simtokio/src/")) { format!("{}.product_code_panicked", id) } else { "harness.panic".to_string() }),
            msg: Some(format!("simulation thread panicked: {}", panics.join(" | "))),
            ev_hash: String::new(),
            ev_count: 0,
            sim_us: 0,
            wall_us,
            counters: BTreeMap::new(),
            digest: String::new(),
            nontrivial: false,
            steps,
            info: json!({}),
            findings: vec![],
            script: Some(script),
            ev_tail: None,
            ev_full: None,
            panic: Some(panics.join(" | ")),
        },
    }
}

/// Execute `script` in a forked child process: every run starts from pristine process-global state
/// (lazily initialised statics such as hash seeds, id counters), exactly like `replay` in a fresh
/// process. The parent never runs a simulation itself, so it is single-threaded when it forks.
pub fn run_script_isolated(check: &'static dyn Check, script: Value, keep_full_log: bool) -> Outcome {
    use std::io::Read;
    use std::os::unix::io::FromRawFd;
    let mut fds = [0i32; 2];
    unsafe {
        if libc::pipe(fds.as_mut_ptr()) != 0 {
            return run_script(check, script, keep_full_log);
        }
    }
    let pid = unsafe { libc::fork() };
    if pid < 0 {
        return run_script(check, script, keep_full_log);
    }
    if pid == 0 {
        // child; a wall-clock watchdog turns a busy loop into a reported failure instead of a hung batch
        unsafe { libc::close(fds[0]) };
        let limit: u32 = std::env::var("RNSIM_RUN_TIMEOUT_S").ok().and_then(|v| v.parse().ok()).unwrap_or(120);
        unsafe { libc::alarm(limit) };
        let o = run_script(check, script, keep_full_log);
        let data = serde_json::to_vec(&o).unwrap_or_default();
        let mut off = 0usize;
        while off < data.len() {
            let n = unsafe { libc::write(fds[1], data[off..].as_ptr() as *const libc::c_void, data.len() - off) };
            if n <= 0 {
                break;
            }
            off += n as usize;
        }
        unsafe {
            libc::close(fds[1]);
            libc::_exit(0);
        }
    }
    unsafe { libc::close(fds[1]) };
    let mut f = unsafe { std::fs::File::from_raw_fd(fds[0]) };
    let mut buf = Vec::new();
    let _ = f.read_to_end(&mut buf);
    let mut status = 0i32;
    unsafe { libc::waitpid(pid, &mut status, 0) };
    match serde_json::from_slice::<Outcome>(&buf) {
        Ok(o) => o,
        Err(_) => {
            let seed = script.get("seed").and_then(|v| v.as_u64()).unwrap_or(0);
            Outcome {
                check: check.id().to_string(),
                seed,
                ok: false,
                clause: Some("harness.child_died".to_string()),
                msg: Some(format!("simulation child process ended without a result (wait status {}; 14 = killed by the wall-clock watchdog: the run did not finish, i.e. something spins without simulated time advancing)", status)),
                ev_hash: String::new(),
                ev_count: 0,
                sim_us: 0,
                wall_us: 0,
                counters: BTreeMap::new(),
                digest: String::new(),
                nontrivial: false,
                steps: 0,
                info: json!({}),
                findings: vec![],
                script: Some(script),
                ev_tail: None,
                ev_full: None,
                panic: None,
            }
        }
    }
}

/// Let every runnable task run to idle and every issued disk mutation complete.
/// On the paused clock a 1 ms sleep returns only after the runtime went idle.
pub async fn settle() {
    for _ in 0..10_000 {
        tokio::time::sleep(std::time::Duration::from_millis(1)).await;
        if tokio::fs::pending_ops() == 0 {
            tokio::time::sleep(std::time::Duration::from_micros(10)).await;
            if tokio::fs::pending_ops() == 0 {
                return;
            }
        }
    }
}

pub async fn advance(ms: u64) {
    tokio::time::sleep(std::time::Duration::from_millis(ms)).await;
}

/// await with a simulated-time budget; `None` on time-out
pub async fn within<T>(ms: u64, f: impl Future<Output = T>) -> Option<T> {
    tokio::time::timeout(std::time::Duration::from_millis(ms), f).await.ok()
}

// ---------------------------------------------------------------------------
// minimisation: delta debugging over steps, then argument and configuration shrinking,
// while the SAME oracle clause keeps failing.

pub fn same_failure(o: &Outcome, clause: &str) -> bool {
    !o.ok && o.clause.as_deref() == Some(clause)
}

pub fn shrink(check: &'static dyn Check, script: Value, clause: &str, budget_runs: usize) -> (Value, usize) {
    let mut best = script;
    let mut runs = 0usize;
    let try_script = |s: &Value, runs: &mut usize| -> bool {
        *runs += 1;
        let o = run_script_isolated(check, s.clone(), false);
        same_failure(&o, clause)
    };
    // 1. ddmin over steps
    let mut n = 2usize;
    loop {
        let steps: Vec<Value> = best["steps"].as_array().cloned().unwrap_or_default();
        if steps.len() <= 1 || runs >= budget_runs {
            break;
        }
        let chunk = std::cmp::max(1, steps.len() / n);
        let mut reduced = false;
        let mut start = 0;
        while start < steps.len() && runs < budget_runs {
            let end = std::cmp::min(steps.len(), start + chunk);
            let mut cand_steps = steps[..start].to_vec();
            cand_steps.extend_from_slice(&steps[end..]);
            let mut cand = best.clone();
            cand["steps"] = Value::Array(cand_steps);
            if try_script(&cand, &mut runs) {
                best = cand;
                reduced = true;
                break;
            }
            start = end;
        }
        if reduced {
            n = std::cmp::max(2, n - 1);
        } else {
            if chunk == 1 {
                break;
            }
            n = std::cmp::min(steps.len(), n * 2);
        }
    }
    // 2. per-step argument shrinking
    let mut progress = true;
    while progress && runs < budget_runs {
        progress = false;
        let steps: Vec<Value> = best["steps"].as_array().cloned().unwrap_or_default();
        'outer: for i in 0..steps.len() {
            for alt in check.shrink_step(&steps[i]) {
                if runs >= budget_runs {
                    break 'outer;
                }
                let mut cand = best.clone();
                cand["steps"][i] = alt;
                if try_script(&cand, &mut runs) {
                    best = cand;
                    progress = true;
                    continue 'outer;
                }
            }
        }
    }
    // 3. configuration toward defaults
    let mut progress = true;
    while progress && runs < budget_runs {
        progress = false;
        for alt in check.shrink_cfg(&best["cfg"]) {
            if runs >= budget_runs {
                break;
            }
            let mut cand = best.clone();
            cand["cfg"] = alt;
            if try_script(&cand, &mut runs) {
                best = cand;
                progress = true;
                break;
            }
        }
    }
    (best, runs)
}

pub fn digest_str(s: &str) -> u64 {
    sim::fnv64(s.as_bytes())
}
