//! In-process HTTP: the same App composition as main.rs (`ApiCheckAuth` + `app_config` for the SDK port,
//! `CheckLogin` + `console_config` for the console port), called through actix-web's test service -
//! no socket, no HTTP framing.
use crate::rig_n::NodeH;
use actix_web::body::MessageBody;
use actix_web::dev::{Service, ServiceResponse};
use actix_web::web::Data;
use actix_web::App;
use rnacos::console::middle::login_middle::CheckLogin;
use rnacos::openapi::middle::auth_middle::ApiCheckAuth;
use rnacos::web_config::{app_config, console_config};
use std::ops::Deref;

pub struct HttpResp {
    pub status: u16,
    pub body: Vec<u8>,
    pub headers: Vec<(String, String)>,
}

impl HttpResp {
    pub fn text(&self) -> String {
        String::from_utf8_lossy(&self.body).to_string()
    }
}

#[macro_export]
macro_rules! api_app {
    ($n:expr) => {{
        let app_data = $n.app.clone();
        let conf = app_data.sys_config.deref().clone();
        actix_web::test::init_service(
            App::new()
                .app_data(Data::new(app_data.clone()))
                .app_data(Data::new(app_data.config_addr.clone()))
                .app_data(Data::new(app_data.naming_addr.clone()))
                .app_data(Data::new(app_data.bi_stream_manage.clone()))
                .wrap(ApiCheckAuth::new(app_data.clone()))
                .configure(app_config(conf)),
        )
        .await
    }};
}

#[macro_export]
macro_rules! console_app {
    ($n:expr) => {{
        let app_data = $n.app.clone();
        actix_web::test::init_service(
            App::new()
                .app_data(Data::new(app_data.clone()))
                .app_data(Data::new(app_data.config_addr.clone()))
                .app_data(Data::new(app_data.naming_addr.clone()))
                .app_data(Data::new(app_data.bi_stream_manage.clone()))
                .wrap(CheckLogin::new(app_data.clone()))
                .configure(console_config),
        )
        .await
    }};
}

pub async fn call<S, B>(app: &S, method: &str, uri: &str, headers: &[(&str, &str)], body: Option<(&str, Vec<u8>)>) -> HttpResp
where
    S: Service<actix_http::Request, Response = ServiceResponse<B>, Error = actix_web::Error>,
    B: MessageBody,
{
    let m = actix_web::http::Method::from_bytes(method.as_bytes()).unwrap_or(actix_web::http::Method::GET);
    let mut req = actix_web::test::TestRequest::default().method(m).uri(uri).peer_addr("10.2.0.9:40000".parse().unwrap());
    for (k, v) in headers {
        req = req.insert_header((*k, *v));
    }
    if let Some((ct, b)) = body {
        req = req.insert_header(("content-type", ct)).set_payload(b);
    }
    match app.call(req.to_request()).await {
        Ok(resp) => {
            let status = resp.status().as_u16();
            let headers = resp.headers().iter().map(|(k, v)| (k.to_string(), v.to_str().unwrap_or("").to_string())).collect();
            let body = actix_web::body::to_bytes(resp.into_body()).await.map(|b| b.to_vec()).unwrap_or_default();
            HttpResp { status, body, headers }
        }
        Err(e) => {
            let r = e.error_response();
            HttpResp { status: r.status().as_u16(), body: e.to_string().into_bytes(), headers: vec![] }
        }
    }
}

pub fn urlencode(s: &str) -> String {
    serde_urlencoded::to_string([("x", s)]).unwrap_or_default()[2..].to_string()
}

#[allow(dead_code)]
pub fn _keep(_n: &NodeH) {}
