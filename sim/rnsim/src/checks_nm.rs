//! Naming (service registry) checks on Rig-N: C11 bookkeeping cross-invariants, C12 reference registry,
//! C13 heartbeat expiry obligations. One executor, the enforced oracle set is chosen by the check id.
use crate::checks_n::{disk_cfg, NCfg};
use crate::core::*;
use crate::http::*;
use crate::rig_n::*;
use crate::{api_app, vensure, vfail};
use actix_web::web::Data;
use actix_web::App;
use rnacos::grpc::{PayloadHandler, PayloadUtils, RequestMeta};
use rnacos::naming::core::{NamingCmd, NamingResult};
use rnacos::naming::model::{Instance, ServiceKey};
use rnacos::naming::service_index::ServiceQueryParam;
use rnacos::openapi::middle::auth_middle::ApiCheckAuth;
use rnacos::web_config::app_config;
use serde::{Deserialize, Serialize};
use serde_json::{json, Value};
use std::collections::{BTreeMap, BTreeSet};
use std::ops::Deref;
use std::sync::Arc;
use tokio::sim::{self, Rng};

pub const SVCS: [&str; 3] = ["svc-a", "svc-b", "svc-a.x"];
pub const NS: &str = "public";
pub const GROUP: &str = "DEFAULT_GROUP";

#[derive(Serialize, Deserialize, Clone, Debug, PartialEq)]
#[serde(tag = "op")]
pub enum NStep {
    /// HTTP register / update. eph: 0 omitted (default ephemeral), 1 true, 2 false; enabled: 0 omitted, 1 true, 2 false; weight 0 = omitted
    /// meta: 0 no metadata, 1..3 a metadata map (console-style override: the handler is the same for POST / PUT / PATCH and
    /// sets from_update); method: 0 POST, 1 PUT, 2 PATCH
    HttpReg { svc: u8, ip: u8, eph: u8, enabled: u8, weight: u8, #[serde(default)] meta: u8, #[serde(default)] method: u8 },
    /// gRPC BatchInstanceRequest of one connection: several addresses of one service registered / deregistered at once
    GrpcBatch { conn: u8, svc: u8, ips: Vec<u8>, dereg: bool },
    /// eph: 0 no `ephemeral` parameter, 1 ephemeral=true, 2 ephemeral=false (a beat never changes the kind of an existing instance)
    HttpBeat { svc: u8, ip: u8, #[serde(default)] eph: u8 },
    HttpDereg { svc: u8, ip: u8, eph: u8 },
    GrpcReg { conn: u8, svc: u8, ip: u8, eph: bool, enabled: bool, weight: u8 },
    GrpcDereg { conn: u8, svc: u8, ip: u8, eph: bool },
    ConnClose { conn: u8 },
    Advance { ms: u64 },
    /// messages of a peer node (id 2), fed to the real receiving entry point handle_naming_route: a synced
    /// registration of one of the peer's clients (gRPC connection or HTTP), a synced removal, the peer reporting a
    /// client as gone, and the peer's periodic list of its clients' instances
    PeerUpd { conn: u8, svc: u8, ip: u8, grpc: bool },
    PeerDel { conn: u8, svc: u8, ip: u8 },
    PeerClientGone { conn: u8 },
    PeerDistro { conn: u8, keys: Vec<(u8, u8)> },
    /// the peer pushes its (empty) registry snapshot, as a node does 30 s after it joined and in answer to a pull: the
    /// receiver merges it and re-examines the range it is responsible for
    PeerSnapshot,
    /// the node's share of the service keys changes (what the cluster layer tells the registry when a peer joins, leaves or
    /// comes back): ClusterRefreshProcessRange(index, len). Instances the node holds as its own keep their time-outs
    RangeRefresh { index: u8, len: u8 },
    /// outcome of the TCP probe of a persistent instance (what the NetSniffing actor reports; the connection
    /// attempt itself is outside the seams)
    Probe { svc: u8, ip: u8, ok: bool },
    /// clean stop and start of the node: ephemeral registrations are gone, persistent ones come back from the Raft store
    Restart,
}

#[derive(Clone, Debug, PartialEq)]
pub enum Owner {
    Http,
    Grpc(u8),
}

#[derive(Clone, Debug)]
pub struct MInst {
    pub ephemeral: bool,
    pub enabled: bool,
    pub weight: f32,
    pub owner: Owner,
    /// simulated time (us) of the last registration / heartbeat through HTTP
    pub last_beat_us: u64,
    /// set when the model no longer knows the exact flags (precedence rules the statement leaves open)
    pub fuzzy: bool,
    /// the owner is not known exactly: a persistent instance registered over gRPC loses its connection
    /// binding when the Raft round trip re-applies it, at a moment the model does not track
    pub unsure: bool,
    /// the last reported TCP probe of this (persistent) instance failed
    pub probe_failed: bool,
    /// the weight is known exactly: it is the one the instance was created with, changed only by requests that name a
    /// weight (HTTP: parameter present and != 1; gRPC: weight != 1 - the handlers' update tags)
    pub weight_known: bool,
}

fn svc_key(s: u8) -> ServiceKey {
    ServiceKey::new(NS, GROUP, SVCS[s as usize % SVCS.len()])
}
fn ip_of(i: u8) -> String {
    format!("10.8.0.{}", i % 4 + 1)
}
fn conn_id(c: u8) -> String {
    format!("1_gconn{}", c % 3)
}

async fn all_instances(n: &NodeH, s: u8) -> anyhow::Result<Vec<Arc<Instance>>> {
    match n.app.naming_addr.send(NamingCmd::QueryAllInstanceList(svc_key(s))).await?? {
        NamingResult::InstanceList(l) => Ok(l),
        _ => Ok(vec![]),
    }
}

fn inst_sig(l: &[Arc<Instance>]) -> String {
    let mut v: Vec<String> = l.iter().map(|x| format!("{}:{}:{}:{}:{}:{}:{}", x.ip, x.ephemeral, x.healthy, x.enabled, x.weight, x.client_id, x.last_modified_millis)).collect();
    v.sort();
    v.join(",")
}

async fn query_list(n: &NodeH, s: u8, only_healthy: bool) -> anyhow::Result<Vec<Arc<Instance>>> {
    match n.app.naming_addr.send(NamingCmd::QueryList(svc_key(s), String::new(), only_healthy, None)).await?? {
        NamingResult::InstanceList(l) => Ok(l),
        _ => Ok(vec![]),
    }
}

pub async fn exec_naming(id: &'static str, script: Value) -> ExecResult {
    let seed = script["seed"].as_u64().unwrap_or(1);
    let cfg: NCfg = serde_json::from_value(script["cfg"].clone()).unwrap_or_default();
    let steps: Vec<NStep> = match serde_json::from_value(script["steps"].clone()) {
        Ok(s) => s,
        Err(e) => return ExecResult { violation: Some(Violation::new("harness.script", e.to_string())), info: RunInfo::default() },
    };
    tokio::fs::set_cfg(disk_cfg(&cfg));
    tokio::fs::with_disk(|d| {
        d.journal_on = false;
        d.log_ops = false;
    });
    net_reset(seed, cfg.net.clone());
    let root = run_root(seed);
    let h_ms = cfg.node.naming_health_timeout + 3000;
    let r_ms = cfg.node.naming_instance_timeout + 3000;
    let mut digest = 0u64;
    let mut findings: Vec<Violation> = vec![];
    let mut observations = 0u64;
    let r: VResult<()> = async {
        let mut n = start_node(&root, 1, true, None, &cfg.node).await.map_err(|e| Violation::new("harness.start", e.to_string()))?;
        vensure!(wait_leader(&n, 20_000).await.is_some(), &format!("{}.no_leader", id), "single node did not become leader");
        advance(16_000).await;
        let mut app = api_app!(n);
        let mut m: BTreeMap<(u8, u8), MInst> = BTreeMap::new();
        // previous observation of instance counts per service (for the empty-service clean-up clause)
        let mut prev_count: BTreeMap<u8, usize> = BTreeMap::new();
        let mut prev_listed: BTreeSet<u8> = BTreeSet::new();
        let mut empty_since: BTreeMap<u8, u64> = BTreeMap::new();
        for (i, st) in steps.iter().enumerate() {
            sim::event(&format!("step {} {}", i, serde_json::to_string(st).unwrap_or_default()));
            let now = sim::now_us();
            match st {
                NStep::HttpReg { svc, ip, eph, enabled, weight, meta, method } => {
                    let (s, a) = (*svc % 3, *ip % 4);
                    let mut q = format!("serviceName={}&ip={}&port=8080&namespaceId={}&groupName={}", urlencode(SVCS[s as usize]), ip_of(a), NS, GROUP);
                    if *eph > 0 {
                        q.push_str(&format!("&ephemeral={}", *eph == 1));
                    }
                    if *enabled > 0 {
                        q.push_str(&format!("&enabled={}", *enabled == 1));
                    }
                    if *weight > 0 {
                        q.push_str(&format!("&weight={}", *weight as f32));
                    }
                    if *meta > 0 {
                        q.push_str(&format!("&metadata={}", urlencode(&json!({"zone": format!("z{}", meta), "v": i}).to_string())));
                        sim::count("probe.http_metadata_override", 1);
                    }
                    // (an address that has expired meanwhile is registered anew by this request)
                    if m.contains_key(&(s, a)) && !all_instances(&n, s).await.map(|l| l.iter().any(|x| x.ip.as_str() == ip_of(a))).unwrap_or(true) {
                        m.remove(&(s, a));
                    }
                    let resp = call(&app, ["POST", "PUT", "PATCH"][*method as usize % 3], &format!("/nacos/v1/ns/instance?{}", q), &[], None).await;
                    vensure!(resp.status == 200, &format!("{}.register_failed", id), "step {}: HTTP register answered {} {}", i, resp.status, resp.text());
                    let want_eph = *eph != 2;
                    match m.get_mut(&(s, a)) {
                        None => {
                            m.insert((s, a), MInst { ephemeral: want_eph, enabled: *enabled != 2, weight: if *weight > 0 { *weight as f32 } else { 1.0 }, owner: Owner::Http, last_beat_us: now, fuzzy: false, unsure: false, probe_failed: false, weight_known: true });
                        }
                        Some(e) => {
                            // update rules of the code (the statement leaves precedence open): a field is
                            // only replaced when the request names it; a gRPC-owned ephemeral instance keeps its owner
                            if *eph > 0 {
                                e.ephemeral = want_eph;
                            }
                            if *enabled > 0 {
                                e.enabled = *enabled == 1;
                            }
                            if *weight > 1 {
                                e.weight = *weight as f32;
                            }
                            if !(want_eph && matches!(e.owner, Owner::Grpc(_))) {
                                e.owner = Owner::Http;
                                e.unsure = false;
                            }
                            e.last_beat_us = now;
                            e.fuzzy = true;
                            e.probe_failed = false;
                        }
                    }
                }
                NStep::HttpBeat { svc, ip, eph } => {
                    let (s, a) = (*svc % 3, *ip % 4);
                    let beat = json!({"ip": ip_of(a), "port": 8080, "serviceName": format!("{}@@{}", GROUP, SVCS[s as usize]), "cluster": "DEFAULT", "weight": 1.0, "metadata": {}});
                    let mut q = format!("serviceName={}&namespaceId={}&groupName={}&ip={}&port=8080&beat={}", urlencode(&format!("{}@@{}", GROUP, SVCS[s as usize])), NS, GROUP, ip_of(a), urlencode(&beat.to_string()));
                    if *eph > 0 {
                        q.push_str(&format!("&ephemeral={}", *eph == 1));
                        sim::count("probe.beat_with_ephemeral_parameter", 1);
                    }
                    // an instance that has already expired (the observation after the previous step has judged whether it
                    // was allowed to) is registered anew by the beat, with the kind the beat names
                    if m.contains_key(&(s, a)) && !all_instances(&n, s).await.map(|l| l.iter().any(|x| x.ip.as_str() == ip_of(a))).unwrap_or(true) {
                        m.remove(&(s, a));
                    }
                    let resp = call(&app, "PUT", &format!("/nacos/v1/ns/instance/beat?{}", q), &[], None).await;
                    vensure!(resp.status == 200, &format!("{}.beat_failed", id), "step {}: beat answered {} {}", i, resp.status, resp.text());
                    match m.get_mut(&(s, a)) {
                        Some(e) => {
                            e.last_beat_us = now;
                        }
                        None => {
                            // a beat for an unknown instance registers it (enabled; ephemeral unless the beat says otherwise)
                            m.insert((s, a), MInst { ephemeral: *eph != 2, enabled: true, weight: 1.0, owner: Owner::Http, last_beat_us: now, fuzzy: true, unsure: false, probe_failed: false, weight_known: true });
                        }
                    }
                }
                NStep::HttpDereg { svc, ip, eph } => {
                    let (s, a) = (*svc % 3, *ip % 4);
                    let mut q = format!("serviceName={}&ip={}&port=8080&namespaceId={}&groupName={}", urlencode(SVCS[s as usize]), ip_of(a), NS, GROUP);
                    if *eph > 0 {
                        q.push_str(&format!("&ephemeral={}", *eph == 1));
                    }
                    let resp = call(&app, "DELETE", &format!("/nacos/v1/ns/instance?{}", q), &[], None).await;
                    vensure!(resp.status == 200, &format!("{}.deregister_failed", id), "step {}: HTTP deregister answered {} {}", i, resp.status, resp.text());
                    // HTTP deregistration carries no client id: it removes whatever is registered under the address
                    if let Some(e) = m.get(&(s, a)) {
                        if matches!(e.owner, Owner::Http) || !e.ephemeral {
                            m.remove(&(s, a));
                        } else {
                            // gRPC-owned ephemeral instance: the code refuses a foreign (empty) client id? it does not
                            // (empty client id passes the guard) - follow the code: removed
                            m.remove(&(s, a));
                        }
                    }
                }
                NStep::GrpcReg { conn, svc, ip, eph, enabled, weight } => {
                    let (s, a, c) = (*svc % 3, *ip % 4, *conn % 3);
                    let w = if *weight == 0 { 1.0 } else { *weight as f32 };
                    let req = json!({"namespace": NS, "serviceName": SVCS[s as usize], "groupName": GROUP, "type": "registerInstance",
                        "instance": {"ip": ip_of(a), "port": 8080, "weight": w, "healthy": true, "enabled": enabled, "ephemeral": eph, "clusterName": "DEFAULT", "metadata": {}}});
                    let payload = PayloadUtils::build_payload("InstanceRequest", req.to_string());
                    let meta = RequestMeta { connection_id: Arc::new(conn_id(c)), client_ip: "10.2.0.9".to_string(), ..Default::default() };
                    if m.contains_key(&(s, a)) && !all_instances(&n, s).await.map(|l| l.iter().any(|x| x.ip.as_str() == ip_of(a))).unwrap_or(true) {
                        m.remove(&(s, a));
                    }
                    let res = n.invoker.handle(payload, meta).await;
                    vensure!(res.map(|r| r.success).unwrap_or(false), &format!("{}.register_failed", id), "step {}: gRPC register refused", i);
                    let fresh = !m.contains_key(&(s, a));
                    let e = m.entry((s, a)).or_insert(MInst { ephemeral: *eph, enabled: *enabled, weight: w, owner: Owner::Grpc(c), last_beat_us: now, fuzzy: false, unsure: !*eph, probe_failed: false, weight_known: true });
                    if !fresh {
                        if (w - 1.0).abs() > 0.001 {
                            e.weight = w;
                        }
                        // (the gRPC handlers' update tag covers `enabled` only when the request says disabled)
                        if !*enabled {
                            e.enabled = false;
                        }
                        e.owner = Owner::Grpc(c);
                        e.fuzzy = true;
                        // the gRPC handler never changes the ephemeral flag of an existing instance
                        e.unsure = !e.ephemeral;
                    }
                }
                NStep::GrpcBatch { conn, svc, ips, dereg } => {
                    let (s, c) = (*svc % 3, *conn % 3);
                    let addrs: BTreeSet<u8> = ips.iter().map(|a| *a % 4).collect();
                    if addrs.is_empty() {
                        continue;
                    }
                    let insts: Vec<Value> = addrs.iter().map(|a| json!({"ip": ip_of(*a), "port": 8080, "weight": 1.0, "healthy": true, "enabled": true, "ephemeral": true, "clusterName": "DEFAULT", "metadata": {}})).collect();
                    let req = json!({"namespace": NS, "serviceName": SVCS[s as usize], "groupName": GROUP, "type": if *dereg { "deregisterInstance" } else { "registerInstance" }, "instances": insts});
                    let payload = PayloadUtils::build_payload("BatchInstanceRequest", req.to_string());
                    let meta = RequestMeta { connection_id: Arc::new(conn_id(c)), client_ip: "10.2.0.9".to_string(), ..Default::default() };
                    let res = n.invoker.handle(payload, meta).await;
                    vensure!(res.map(|r| r.success).unwrap_or(false), &format!("{}.register_failed", id), "step {}: gRPC batch request refused", i);
                    sim::count("probe.grpc_batch", 1);
                    for a in addrs {
                        if *dereg {
                            if let Some(e) = m.get(&(s, a)) {
                                let protected = e.ephemeral && e.owner != Owner::Grpc(c);
                                if e.ephemeral && e.unsure {
                                    let still = all_instances(&n, s).await.map(|l| l.iter().any(|x| x.ip.as_str() == ip_of(a))).unwrap_or(false);
                                    if !still {
                                        m.remove(&(s, a));
                                    }
                                } else if !protected {
                                    m.remove(&(s, a));
                                }
                            }
                        } else {
                            let fresh = !m.contains_key(&(s, a));
                            let e = m.entry((s, a)).or_insert(MInst { ephemeral: true, enabled: true, weight: 1.0, owner: Owner::Grpc(c), last_beat_us: now, fuzzy: false, unsure: false, probe_failed: false, weight_known: true });
                            if !fresh {
                                e.owner = Owner::Grpc(c);
                                e.fuzzy = true;
                                e.unsure = !e.ephemeral;
                            }
                        }
                    }
                }
                NStep::GrpcDereg { conn, svc, ip, eph } => {
                    let (s, a, c) = (*svc % 3, *ip % 4, *conn % 3);
                    let req = json!({"namespace": NS, "serviceName": SVCS[s as usize], "groupName": GROUP, "type": "deregisterInstance",
                        "instance": {"ip": ip_of(a), "port": 8080, "weight": 1.0, "healthy": true, "enabled": true, "ephemeral": eph, "clusterName": "DEFAULT", "metadata": {}}});
                    let payload = PayloadUtils::build_payload("InstanceRequest", req.to_string());
                    let meta = RequestMeta { connection_id: Arc::new(conn_id(c)), client_ip: "10.2.0.9".to_string(), ..Default::default() };
                    let _ = n.invoker.handle(payload, meta).await;
                    if let Some(e) = m.get(&(s, a)) {
                        // an ephemeral instance owned by another client is protected; everything else is removed
                        let protected = e.ephemeral && e.owner != Owner::Grpc(c);
                        if e.ephemeral && e.unsure {
                            let still = all_instances(&n, s).await.map(|l| l.iter().any(|x| x.ip.as_str() == ip_of(a))).unwrap_or(false);
                            if !still {
                                m.remove(&(s, a));
                            }
                        } else if !protected {
                            m.remove(&(s, a));
                        }
                    }
                }
                NStep::ConnClose { conn } => {
                    let c = *conn % 3;
                    n.app.bi_stream_manage.do_send(rnacos::grpc::bistream_manage::BiStreamManageCmd::ConnClose(Arc::new(conn_id(c))));
                    advance(20).await;
                    // statement: all ephemeral instances it registered (and still owns) disappear, nothing else
                    let owned: Vec<(u8, u8)> = m.iter().filter(|(_, e)| e.owner == Owner::Grpc(c)).map(|(k, _)| *k).collect();
                    for k in owned {
                        let e = m.get(&k).unwrap().clone();
                        let still = all_instances(&n, k.0).await.map(|l| l.iter().any(|x| x.ip.as_str() == ip_of(k.1))).unwrap_or(false);
                        if e.ephemeral && e.unsure {
                            if !still {
                                m.remove(&k);
                            }
                        } else if e.ephemeral {
                            m.remove(&k);
                        } else {
                            // a persistent instance must survive the end of the connection
                            if !still && id == "C12" {
                                vfail!("C12.persistent_instance_removed_on_disconnect", "step {}: connection {} ended; the persistent (non-ephemeral) instance {}:8080 of {} that it had registered over gRPC was removed with it", i, conn_id(c), ip_of(k.1), SVCS[k.0 as usize]);
                            }
                            if !still {
                                m.remove(&k);
                            } else {
                                sim::count("probe.persistent_survived_conn_close", 1);
                            }
                        }
                    }
                }
                NStep::Advance { .. } => {}
                NStep::RangeRefresh { index, len } => {
                    let len = (*len % 3 + 1) as usize;
                    let r = rnacos::naming::cluster::model::ProcessRange::new(*index as usize % len, len);
                    let _ = n.app.naming_addr.send(NamingCmd::ClusterRefreshProcessRange(r)).await;
                    sim::count("probe.range_refresh", 1);
                }
                NStep::PeerUpd { .. } | NStep::PeerDel { .. } | NStep::PeerClientGone { .. } | NStep::PeerDistro { .. } | NStep::PeerSnapshot => {
                    use rnacos::naming::cluster::model::NamingRouteRequest;
                    let mut ext = std::collections::HashMap::new();
                    ext.insert("cluster_id".to_string(), "2".to_string());
                    let peer_client = |c: u8| Arc::new(format!("2_pconn{}", c % 3));
                    let mk = |c: u8, s: u8, a: u8, grpc: bool| {
                        let key = svc_key(s);
                        let mut inst = Instance { ip: Arc::new(ip_of(a)), port: 8080, weight: 1.0, enabled: true, healthy: true, ephemeral: true, cluster_name: "DEFAULT".to_string(), service_name: key.service_name.clone(), group_name: key.group_name.clone(), namespace_id: key.namespace_id.clone(), from_grpc: grpc, from_cluster: 2, client_id: if grpc { peer_client(c) } else { Arc::new(String::new()) }, ..Default::default() };
                        inst.generate_key();
                        inst
                    };
                    let req = match st {
                        NStep::PeerUpd { conn, svc, ip, grpc } => NamingRouteRequest::SyncUpdateInstance { instance: mk(*conn, *svc % 3, *ip % 4, *grpc) },
                        NStep::PeerDel { conn, svc, ip } => NamingRouteRequest::SyncRemoveInstance { instance: mk(*conn, *svc % 3, *ip % 4, true) },
                        NStep::PeerDistro { conn, keys } => {
                            let mut map = std::collections::HashMap::new();
                            let set: std::collections::HashSet<rnacos::naming::model::InstanceKey> = keys.iter().map(|(s, a)| rnacos::naming::model::InstanceKey::new_by_service_key(&svc_key(*s % 3), Arc::new(ip_of(*a % 4)), 8080)).collect();
                            map.insert(peer_client(*conn), set);
                            NamingRouteRequest::SyncDistroClientInstances(map)
                        }
                        NStep::PeerSnapshot => {
                            use rnacos::naming::cluster::model::{SnapshotDataInfo, SnapshotForSend};
                            let snap = SnapshotForSend { route_index: 0, node_count: 1, services: vec![], instances: vec![], mode: 0 };
                            sim::count("probe.peer_snapshot", 1);
                            NamingRouteRequest::Snapshot(SnapshotDataInfo::from(snap).to_bytes().unwrap_or_default())
                        }
                        _ => NamingRouteRequest::Ping(2),
                    };
                    if let NStep::PeerClientGone { conn } = st {
                        let _ = n.app.naming_addr.send(NamingCmd::RemoveClientFromCluster(peer_client(*conn))).await;
                    } else {
                        let _ = rnacos::naming::cluster::handle_naming_route(&n.app, req, ext).await;
                    }
                    sim::count("probe.peer_message", 1);
                    // (a synced copy replaces the instance as a whole)
                    for e in m.values_mut() {
                        e.weight_known = false;
                    }
                }
                NStep::Probe { svc, ip, ok } => {
                    let (s, a) = (*svc % 3, *ip % 4);
                    // the prober only visits hosts of persistent instances
                    let is_persistent = all_instances(&n, s).await.map(|l| l.iter().any(|x| x.ip.as_str() == ip_of(a) && !x.ephemeral)).unwrap_or(false);
                    if is_persistent {
                        let host = rnacos::naming::model::InstanceShortKey::new(Arc::new(ip_of(a)), 8080);
                        let _ = n.app.naming_addr.send(NamingCmd::PerpetualHostSniffing { host, service_keys: vec![svc_key(s)], success: *ok }).await;
                        sim::count(if *ok { "probe.tcp_probe_ok" } else { "probe.tcp_probe_failed" }, 1);
                        if let Some(e) = m.get_mut(&(s, a)) {
                            e.probe_failed = !*ok;
                        }
                    }
                }
                NStep::Restart => {
                    advance(500).await;
                    stop_node(1).await;
                    n = start_node(&root, 1, true, None, &cfg.node).await.map_err(|e| Violation::new(&format!("{}.restart_failed", id), e.to_string()))?;
                    vensure!(wait_leader(&n, 20_000).await.is_some(), &format!("{}.no_leader", id), "step {}: no leader after the restart", i);
                    advance(13_000).await;
                    app = api_app!(n);
                    sim::count("probe.restart", 1);
                    sim::count("probe.restart_with_persistent_instances", m.values().filter(|e| !e.ephemeral).count() as u64);
                    m.retain(|_, e| !e.ephemeral);
                    for e in m.values_mut() {
                        e.owner = Owner::Http;
                        e.unsure = false;
                        e.fuzzy = true;
                        e.weight_known = false;
                    }
                    prev_listed.clear();
                    prev_count.clear();
                }
            }
            // an Advance is walked in slices of at most one second, with a full observation after each
            let mut rest = if let NStep::Advance { ms } = st { *ms } else { 0 };
            loop {
            let slice = rest.min(1000);
            rest -= slice;
            advance(slice + 2).await;
            let now = sim::now_us();
            // model side of the heartbeat clock (C13 obligations are checked against windows below)
            // ---- observation ----
            observations += 1;
            // The observation is several actor messages; the registry's own timers may run between them. It is
            // bracketed by two reads of the instance lists and repeated when they differ, so that every
            // comparison is made against one state.
            let mut tries = 0;
            loop {
            tries += 1;
            let mut counts: BTreeMap<u8, usize> = BTreeMap::new();
            let mut all: BTreeMap<u8, Vec<Arc<Instance>>> = BTreeMap::new();
            for s in 0..3u8 {
                let l = all_instances(&n, s).await.map_err(|e| Violation::new(&format!("{}.query_failed", id), e.to_string()))?;
                counts.insert(s, l.len());
                all.insert(s, l);
            }
            let res: VResult<()> = async {
            if id == "C11" {
                // service info page: counters equal what the instance query returns
                let p = ServiceQueryParam { namespace_id: Some(Arc::new(NS.to_string())), limit: 1000, ..Default::default() };
                let (total, infos) = match n.app.naming_addr.send(NamingCmd::QueryServiceInfoPage(p)).await {
                    Ok(Ok(NamingResult::ServiceInfoPage((t, l)))) => (t, l),
                    _ => vfail!("C11.query_failed", "QueryServiceInfoPage failed"),
                };
                vensure!(total == infos.len(), "C11.service_total", "after step {}: service page total {} but {} entries", i, total, infos.len());
                let mut listed: BTreeMap<String, usize> = BTreeMap::new();
                if std::env::var("RNSIM_NM_DEBUG").is_ok() {
                    for info in &infos {
                        if let Some(s) = SVCS.iter().position(|x| *x == info.service_name.as_str()) {
                            eprintln!("dbg step {} t={} {} size={} healthy={} list={:?}", i, now / 1000, info.service_name, info.instance_size, info.healthy_instance_size, all[&(s as u8)].iter().map(|x| format!("{}:e{}h{}g{}c{}", x.ip, x.ephemeral as u8, x.healthy as u8, x.from_grpc as u8, x.client_id)).collect::<Vec<_>>());
                        }
                    }
                }
                for info in &infos {
                    *listed.entry(info.service_name.as_ref().clone()).or_insert(0) += 1;
                    if let Some(s) = SVCS.iter().position(|x| *x == info.service_name.as_str()) {
                        let l = &all[&(s as u8)];
                        let healthy = l.iter().filter(|x| x.healthy).count();
                        vensure!(info.instance_size as usize == l.len(), "C11.instance_count", "after step {} ({:?}): service {} reports instance_size {} but the instance query returns {}", i, st, info.service_name, info.instance_size, l.len());
                        vensure!(info.healthy_instance_size as usize == healthy, "C11.healthy_count", "after step {} ({:?}): service {} reports healthy_instance_size {} but {} of its {} instances are healthy", i, st, info.service_name, info.healthy_instance_size, healthy, l.len());
                    }
                }
                for (name, c) in &listed {
                    vensure!(*c == 1, "C11.listed_twice", "after step {}: service {} is listed {} times", i, name, c);
                }
                // every service with data is listed; a service only disappears when it had no instances
                let now_listed: BTreeSet<u8> = (0..3u8).filter(|s| listed.contains_key(SVCS[*s as usize])).collect();
                for s in 0..3u8 {
                    if counts[&s] > 0 {
                        vensure!(now_listed.contains(&s), "C11.service_not_listed", "after step {}: service {} has {} instances but is not in the service listing", i, SVCS[s as usize], counts[&s]);
                    }
                    if prev_listed.contains(&s) && !now_listed.contains(&s) {
                        vensure!(prev_count.get(&s).copied().unwrap_or(0) == 0, "C11.service_dropped_with_instances", "after step {}: service {} disappeared from the listing although it had {} instances at the previous observation", i, SVCS[s as usize], prev_count[&s]);
                    }
                    if counts[&s] == 0 {
                        empty_since.entry(s).or_insert(now);
                    } else {
                        empty_since.remove(&s);
                    }
                }
                prev_listed = now_listed;
                // client bookkeeping: every instance recorded for a connection exists and belongs to it
                if let Ok(Ok(NamingResult::ClientInstanceCount(list))) = n.app.naming_addr.send(NamingCmd::QueryClientInstanceCount).await {
                    for (client, cnt) in list {
                        let real = all.values().flatten().filter(|x| x.client_id.as_str() == client.as_str()).count();
                        vensure!(cnt <= real, "C11.client_instance_count", "after step {} ({:?}): {} instances are recorded for client {} but {} instances carry that client id", i, st, cnt, client, real);
                    }
                }
                prev_count = counts.clone();
                // the persistent set (what the real snapshot builder writes) equals the non-ephemeral instances - also
                // during the run, at every fifth step once the node has been quiet for a moment
                if (i % 5 == 4 || cfg.disk_p_delay > 0.0) && rest == 0 {
                    let recs = snapshot_records(&n, "nm-mid").await.map_err(|e| Violation::new("C11.observe_failed", e.to_string()))?;
                    let persisted = recs.iter().filter(|r| r.0.contains("NAMING_INSTANCE")).count();
                    let non_eph: usize = all.values().map(|l| l.iter().filter(|x| !x.ephemeral).count()).sum();
                    vensure!(persisted == non_eph, "C11.persistent_set", "after step {} ({:?}): {} persistent-instance records are written into a snapshot but {} non-ephemeral instances are registered", i, st, persisted, non_eph);
                    sim::count("probe.persistent_set_checked_mid_run", 1);
                }
            }
            if id == "C12" {
                for s in 0..3u8 {
                    let got: BTreeSet<String> = all[&s].iter().map(|x| x.ip.as_ref().clone()).collect();
                    let want: BTreeSet<String> = m.iter().filter(|((ms, _), _)| *ms == s).map(|((_, a), _)| ip_of(*a)).collect();
                    // HTTP-owned ephemeral instances may have expired meanwhile: those are removed from the model lazily
                    let expired: BTreeSet<String> = m.iter().filter(|((ms, _), e)| *ms == s && e.ephemeral && (e.owner == Owner::Http || e.unsure) && now > e.last_beat_us + r_ms * 1000 - 1_000_000).map(|((_, a), _)| ip_of(*a)).collect();
                    for ipx in want.difference(&got) {
                        vensure!(expired.contains(ipx), "C12.registered_missing", "after step {} ({:?}): {}:8080 is registered for {} but the instance query does not return it (returned {:?})", i, st, ipx, SVCS[s as usize], got);
                    }
                    for ipx in got.difference(&want) {
                        vfail!("C12.foreign_returned", "after step {} ({:?}): the instance query for {} returns {}:8080 which is not registered (registered {:?})", i, st, SVCS[s as usize], ipx, want);
                    }
                    // freshly registered instances carry the flags they were registered with
                    for x in &all[&s] {
                        let a = (0..4u8).find(|a| ip_of(*a) == x.ip.as_str()).unwrap_or(0);
                        if let Some(e) = m.get(&(s, a)) {
                            // the weight is changed only by a request that names one
                            if e.weight_known && e.ephemeral && x.ephemeral && !e.unsure {
                                vensure!((x.weight - e.weight).abs() < 0.001, "C12.weight", "after step {} ({:?}): {}:8080 of {} is served with weight {} but its weight is {} (set at registration or by the last request that named a weight)", i, st, x.ip, SVCS[s as usize], x.weight, e.weight);
                                sim::count("probe.weight_compared", 1);
                                // ... and `enabled` only by a request that names it (HTTP: parameter present; gRPC: enabled=false)
                                vensure!(x.enabled == e.enabled, "C12.enabled", "after step {} ({:?}): {}:8080 of {} is served with enabled={} but the last request that named the flag set it to {}", i, st, x.ip, SVCS[s as usize], x.enabled, e.enabled);
                            }
                            if !e.fuzzy {
                                vensure!(x.ephemeral == e.ephemeral && x.enabled == e.enabled && (x.weight - e.weight).abs() < 0.001, "C12.flags", "after step {} ({:?}): {}:8080 of {} is served with ephemeral={} enabled={} weight={} but was registered with ephemeral={} enabled={} weight={}", i, st, x.ip, SVCS[s as usize], x.ephemeral, x.enabled, x.weight, e.ephemeral, e.enabled, e.weight);
                            }
                        }
                    }
                    // the filtered query: enabled, and healthy when healthy-only is asked (protection threshold 0)
                    let q = query_list(&n, s, true).await.map_err(|e| Violation::new("C12.query_failed", e.to_string()))?;
                    // protection threshold (0 by default): reached when none of the enabled instances is healthy; then all are returned
                    let protect = all[&s].iter().any(|x| x.enabled) && !all[&s].iter().any(|x| x.enabled && x.healthy);
                    if protect {
                        sim::count("probe.protection_threshold_reached", 1);
                    }
                    let wantq: BTreeSet<String> = all[&s].iter().filter(|x| x.enabled && (x.healthy || protect)).map(|x| x.ip.as_ref().clone()).collect();
                    let gotq: BTreeSet<String> = q.iter().map(|x| x.ip.as_ref().clone()).collect();
                    vensure!(gotq == wantq, "C12.filtered_query", "after step {} ({:?}): healthy-only query for {} returns {:?}, the enabled and healthy instances are {:?}", i, st, SVCS[s as usize], gotq, wantq);
                    let q2 = query_list(&n, s, false).await.map_err(|e| Violation::new("C12.query_failed", e.to_string()))?;
                    let wantq2: BTreeSet<String> = all[&s].iter().filter(|x| x.enabled).map(|x| x.ip.as_ref().clone()).collect();
                    let gotq2: BTreeSet<String> = q2.iter().map(|x| x.ip.as_ref().clone()).collect();
                    vensure!(gotq2 == wantq2, "C12.filtered_query", "after step {} ({:?}): query for {} returns {:?}, the enabled instances are {:?}", i, st, SVCS[s as usize], gotq2, wantq2);
                    // the same through the SDK-facing routes: HTTP instance list (healthyOnly true / false; omitted counts as true in this handler, the statement leaves it open) and
                    // the gRPC ServiceQueryRequest (always healthy-only)
                    if rest == 0 {
                        for (ho, want) in [(Some(true), &wantq), (Some(false), &wantq2), (None, &wantq)] {
                            let mut q = format!("serviceName={}&namespaceId={}&groupName={}", urlencode(&format!("{}@@{}", GROUP, SVCS[s as usize])), NS, GROUP);
                            if let Some(h) = ho {
                                q.push_str(&format!("&healthyOnly={}", h));
                            }
                            let resp = call(&app, "GET", &format!("/nacos/v1/ns/instance/list?{}", q), &[], None).await;
                            vensure!(resp.status == 200, "C12.query_failed", "after step {}: HTTP instance list answered {} {}", i, resp.status, resp.text());
                            let v: Value = serde_json::from_str(&resp.text()).unwrap_or(Value::Null);
                            let got: BTreeSet<String> = v["hosts"].as_array().map(|l| l.iter().filter_map(|h| h["ip"].as_str().map(|x| x.to_string())).collect()).unwrap_or_default();
                            vensure!(&got == want, "C12.http_list", "after step {} ({:?}): HTTP /ns/instance/list (healthyOnly {:?}) for {} returns {:?}, expected {:?}", i, st, ho, SVCS[s as usize], got, want);
                        }
                        let req = json!({"namespace": NS, "serviceName": SVCS[s as usize], "groupName": GROUP, "healthyOnly": true});
                        let payload = PayloadUtils::build_payload("ServiceQueryRequest", req.to_string());
                        let meta = RequestMeta { connection_id: Arc::new("1_gquery".to_string()), client_ip: "10.2.0.9".to_string(), ..Default::default() };
                        let r = n.invoker.handle(payload, meta).await.map_err(|e| Violation::new("C12.query_failed", e.to_string()))?;
                        let body = r.payload.body.map(|b| b.value).unwrap_or_default();
                        let v: Value = serde_json::from_slice(&body).unwrap_or(Value::Null);
                        let got: BTreeSet<String> = v["serviceInfo"]["hosts"].as_array().map(|l| l.iter().filter_map(|h| h["ip"].as_str().map(|x| x.to_string())).collect()).unwrap_or_default();
                        vensure!(got == wantq, "C12.grpc_service_query", "after step {} ({:?}): gRPC ServiceQueryRequest for {} returns {:?}, the enabled and healthy instances are {:?} (answer {})", i, st, SVCS[s as usize], got, wantq, String::from_utf8_lossy(&body).chars().take(300).collect::<String>());
                        sim::count("probe.sdk_routes_compared", 1);
                    }
                }
                // drop expired HTTP instances from the model once the node has dropped them
                let gone: Vec<(u8, u8)> = m.iter().filter(|((s, a), e)| e.ephemeral && (e.owner == Owner::Http || e.unsure) && !all[s].iter().any(|x| x.ip.as_str() == ip_of(*a)) && now > e.last_beat_us + r_ms * 1000 - 1_000_000).map(|(k, _)| *k).collect();
                for k in gone {
                    m.remove(&k);
                }
            }
            if id == "C13" {
                for ((s, a), e) in m.clone() {
                    let inst = all[&s].iter().find(|x| x.ip.as_str() == ip_of(a)).cloned();
                    let age_ms = (now.saturating_sub(e.last_beat_us)) / 1000;
                    if e.ephemeral && e.unsure {
                        if inst.is_none() {
                            m.remove(&(s, a));
                        }
                        continue;
                    }
                    let exempt = !e.ephemeral || matches!(e.owner, Owner::Grpc(_));
                    if exempt {
                        // persistent and gRPC-connected instances are never expired by the heartbeat clock
                        vensure!(inst.is_some(), "C13.exempt_instance_expired", "after step {}: {}:8080 of {} ({}) is gone {} ms after its last registration", i, ip_of(a), SVCS[s as usize], if e.ephemeral { "gRPC-owned" } else { "persistent" }, age_ms);
                        if let (Some(x), false) = (&inst, e.probe_failed && !e.ephemeral) {
                            vensure!(x.healthy, "C13.exempt_instance_unhealthy", "after step {}: {}:8080 of {} ({}) was marked unhealthy {} ms after its last registration", i, ip_of(a), SVCS[s as usize], if e.ephemeral { "gRPC-owned" } else { "persistent" }, age_ms);
                        }
                        continue;
                    }
                    // safety: healthy before H, present before R (1 s guard band)
                    if age_ms + 1000 < h_ms {
                        match &inst {
                            Some(x) => vensure!(x.healthy, "C13.unhealthy_while_beating", "after step {}: {}:8080 of {} is unhealthy {} ms after its last heartbeat (health time-out {} ms)", i, ip_of(a), SVCS[s as usize], age_ms, h_ms),
                            None => vfail!("C13.removed_while_beating", "after step {}: {}:8080 of {} is gone {} ms after its last heartbeat (health time-out {} ms, instance time-out {} ms)", i, ip_of(a), SVCS[s as usize], age_ms, h_ms, r_ms),
                        }
                    } else if age_ms + 1000 < r_ms {
                        vensure!(inst.is_some(), "C13.removed_before_timeout", "after step {}: {}:8080 of {} is gone {} ms after its last heartbeat (instance time-out {} ms)", i, ip_of(a), SVCS[s as usize], age_ms, r_ms);
                    }
                    // progress: unhealthy by H + 5 s, gone by R + 5 s
                    if age_ms > h_ms + 5000 {
                        if let Some(x) = &inst {
                            vensure!(!x.healthy, "C13.not_marked_unhealthy", "after step {}: {}:8080 of {} is still healthy {} ms after its last heartbeat (health time-out {} ms)", i, ip_of(a), SVCS[s as usize], age_ms, h_ms);
                            sim::count("probe.observed_unhealthy", 1);
                        }
                    }
                    if age_ms > r_ms + 5000 {
                        vensure!(inst.is_none(), "C13.not_removed", "after step {}: {}:8080 of {} is still present {} ms after its last heartbeat (instance time-out {} ms)", i, ip_of(a), SVCS[s as usize], age_ms, r_ms);
                        sim::count("probe.observed_expired", 1);
                        m.remove(&(s, a));
                    }
                }
            }
            Ok(())
            }
            .await;
            let mut stable = true;
            for s in 0..3u8 {
                let l2 = all_instances(&n, s).await.map_err(|e| Violation::new(&format!("{}.query_failed", id), e.to_string()))?;
                if inst_sig(&l2) != inst_sig(&all[&s]) {
                    stable = false;
                }
            }
            if !stable && tries < 6 {
                sim::count("probe.observation_repeated", 1);
                continue;
            }
            res?;
            break;
            }
            if rest == 0 {
                break;
            }
            }
        }
        // (end of steps)
        // persistent set == non-ephemeral instances (through the records of the real snapshot builder)
        if id == "C11" {
            let recs = snapshot_records(&n, "nm").await.map_err(|e| Violation::new("C11.observe_failed", e.to_string()))?;
            let persisted = recs.iter().filter(|r| r.0.contains("NAMING_INSTANCE") || r.0 == "T_NAMING_INSTANCE").count();
            let mut non_eph = 0;
            for s in 0..3u8 {
                non_eph += all_instances(&n, s).await.map(|l| l.iter().filter(|x| !x.ephemeral).count()).unwrap_or(0);
            }
            vensure!(persisted == non_eph, "C11.persistent_set", "at the end: {} persistent-instance records are written into a snapshot but {} non-ephemeral instances are registered", persisted, non_eph);
            digest = records_digest(&recs);
        }
        digest ^= digest_str(&format!("{:?}", m.keys().collect::<Vec<_>>()));
        Ok(())
    }
    .await;
    let info = RunInfo { digest, nontrivial: observations >= 5, info: json!({"observations": observations}), findings };
    for n in live_nodes() {
        kill_node(n.id).await;
    }
    ExecResult { violation: r.err(), info }
}

fn gen_nsteps(rng: &mut Rng, n: u64, bias: &str) -> Vec<NStep> {
    let mut steps = vec![];
    for _ in 0..n {
        let svc = rng.below(3) as u8;
        let ip = rng.below(4) as u8;
        let r = rng.below(100);
        if bias == "sync" && rng.chance(0.3) {
            let conn = rng.below(3) as u8;
            let r2 = rng.below(100);
            steps.push(if r2 < 50 {
                NStep::PeerUpd { conn, svc, ip, grpc: rng.chance(0.8) }
            } else if r2 < 75 {
                NStep::PeerDel { conn: if rng.chance(0.8) { conn } else { conn + 1 }, svc, ip }
            } else if r2 < 84 {
                NStep::PeerClientGone { conn }
            } else if r2 < 88 {
                NStep::PeerSnapshot
            } else {
                let nk = rng.below(3);
                NStep::PeerDistro { conn, keys: (0..nk).map(|_| (rng.below(3) as u8, rng.below(4) as u8)).collect() }
            });
            continue;
        }
        let st = match bias {
            "timing" => {
                if r < 25 {
                    NStep::HttpReg { svc, ip, eph: *rng.pick(&[0u8, 0, 1, 2]), enabled: 0, weight: 0, meta: 0, method: 0 }
                } else if r < 55 {
                    NStep::HttpBeat { svc, ip, eph: *rng.pick(&[0u8, 0, 0, 1, 2]) }
                } else if r < 62 {
                    NStep::GrpcReg { conn: rng.below(3) as u8, svc, ip, eph: true, enabled: true, weight: 0 }
                } else if r < 68 {
                    NStep::Probe { svc, ip, ok: rng.chance(0.4) }
                } else if r < 71 {
                    NStep::PeerSnapshot
                } else if r < 74 {
                    NStep::RangeRefresh { index: rng.below(3) as u8, len: rng.below(3) as u8 }
                } else {
                    NStep::Advance { ms: *rng.pick(&[500u64, 2000, 4000, 9000, 20000, 45000]) }
                }
            }
            _ => {
                if r < 22 {
                    NStep::HttpReg { svc, ip, eph: *rng.pick(&[0u8, 0, 1, 2]), enabled: *rng.pick(&[0u8, 0, 1, 2]), weight: *rng.pick(&[0u8, 0, 1, 3]), meta: *rng.pick(&[0u8, 0, 0, 1, 2]), method: *rng.pick(&[0u8, 0, 1, 2]) }
                } else if r < 30 {
                    NStep::HttpBeat { svc, ip, eph: *rng.pick(&[0u8, 0, 1, 2]) }
                } else if r < 38 {
                    NStep::HttpDereg { svc, ip, eph: *rng.pick(&[0u8, 1, 2]) }
                } else if r < 62 {
                    NStep::GrpcReg { conn: rng.below(3) as u8, svc, ip, eph: rng.chance(0.8), enabled: rng.chance(0.85), weight: *rng.pick(&[0u8, 1, 2]) }
                } else if r < 66 {
                    let k = rng.range(1, 4);
                    NStep::GrpcBatch { conn: rng.below(3) as u8, svc, ips: (0..k).map(|_| rng.below(4) as u8).collect(), dereg: rng.chance(0.25) }
                } else if r < 72 {
                    NStep::GrpcDereg { conn: rng.below(3) as u8, svc, ip, eph: rng.chance(0.8) }
                } else if r < 80 {
                    NStep::ConnClose { conn: rng.below(3) as u8 }
                } else if r < 82 {
                    NStep::Restart
                } else if r < 85 {
                    NStep::Probe { svc, ip, ok: rng.chance(0.4) }
                } else {
                    NStep::Advance { ms: *rng.pick(&[100u64, 1000, 5000, 12000, 40000]) }
                }
            }
        };
        steps.push(st);
    }
    steps
}

fn naming_cfg(rng: &mut Rng, timing: bool) -> NCfg {
    let mut cfg = NCfg::default();
    cfg.nodes = 1;
    cfg.node.snapshot_log_size = 10_000;
    // the configuration values are milliseconds; the code adds 3 s to each
    cfg.node.naming_health_timeout = if timing { rng.range(3, 15) * 1000 } else { 15_000 };
    cfg.node.naming_instance_timeout = cfg.node.naming_health_timeout + rng.range(5, 30) * 1000;
    cfg
}

pub struct C11;
impl Check for C11 {
    fn id(&self) -> &'static str {
        "C11"
    }
    fn generate(&self, seed: u64, _tier: Tier) -> Value {
        // a quarter of the runs: 3-node cluster scenario (real cluster-sync origins, node death and rejoin)
        if Rng::derive(seed, "C11.kind", 0).chance(0.25) {
            return crate::checks_nc::gen_c11_cluster(seed);
        }
        let mut rng = Rng::derive(seed, "C11.gen", 0);
        let cfg = naming_cfg(&mut rng, false);
        let n = rng.range(8, 70);
        // half of the histories also contain messages of a peer node (cluster-sync origins)
        let bias = if Rng::derive(seed, "C11.bias", 0).chance(0.5) { "sync" } else { "mixed" };
        let steps = gen_nsteps(&mut rng, n, bias);
        // a third of the runs: slow disk, so that the Raft round trip of a persistent instance takes tens of
        // milliseconds and the registry is observed while it is under way (persistent set checked after every step)
        let mut cfg = cfg;
        let mut rd = Rng::derive(seed, "C11.disk", 0);
        if rd.chance(0.33) {
            cfg.disk_p_delay = 0.7;
            cfg.disk_max_delay_us = *rd.pick(&[5_000u64, 30_000, 80_000]);
        }
        json!({"check": "C11", "seed": seed, "cfg": cfg, "steps": steps})
    }
    fn execute(&self, script: Value) -> LocalFut<ExecResult> {
        if script["cluster"].as_bool().unwrap_or(false) {
            return Box::pin(crate::checks_nc::exec_c15_mode(script, true));
        }
        Box::pin(exec_naming("C11", script))
    }
}

pub struct C12;
impl Check for C12 {
    fn id(&self) -> &'static str {
        "C12"
    }
    fn generate(&self, seed: u64, _tier: Tier) -> Value {
        let mut rng = Rng::derive(seed, "C12.gen", 0);
        let cfg = naming_cfg(&mut rng, false);
        let n = rng.range(8, 60);
        let steps = gen_nsteps(&mut rng, n, "mixed");
        json!({"check": "C12", "seed": seed, "cfg": cfg, "steps": steps})
    }
    fn execute(&self, script: Value) -> LocalFut<ExecResult> {
        Box::pin(exec_naming("C12", script))
    }
}

pub struct C13;
impl Check for C13 {
    fn id(&self) -> &'static str {
        "C13"
    }
    fn generate(&self, seed: u64, _tier: Tier) -> Value {
        // a quarter of the runs: cluster scenario (expiry everywhere, take-over after a node failure)
        if Rng::derive(seed, "C13.kind", 0).chance(0.25) {
            return crate::checks_nc::gen_c13_cluster(seed);
        }
        let mut rng = Rng::derive(seed, "C13.gen", 0);
        let cfg = naming_cfg(&mut rng, true);
        let n = rng.range(8, 60);
        let steps = gen_nsteps(&mut rng, n, "timing");
        json!({"check": "C13", "seed": seed, "cfg": cfg, "steps": steps})
    }
    fn execute(&self, script: Value) -> LocalFut<ExecResult> {
        if script["cluster"].as_bool().unwrap_or(false) {
            return Box::pin(crate::checks_nc::exec_c13_cluster(script));
        }
        Box::pin(exec_naming("C13", script))
    }
}
