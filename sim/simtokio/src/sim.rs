//! Simulator core shared by every seam: the one seed, named PRNG sub-streams,
//! the event log (whose hash is the run's interleaving id), fault counters.
//!
//! All state is thread-local: one simulated run = one fresh OS thread.
use std::cell::RefCell;
use std::collections::BTreeMap;

#[derive(Clone, Debug)]
pub struct Rng(pub u64);

impl Rng {
    pub fn new(seed: u64) -> Self {
        Rng(seed)
    }
    /// Sub-stream derived from (root seed, name, step) — not drawn sequentially, so
    /// removing a step during minimisation does not shift the others.
    pub fn derive(seed: u64, name: &str, step: u64) -> Self {
        let mut h = seed ^ 0x9E37_79B9_7F4A_7C15;
        for b in name.bytes() {
            h = (h ^ b as u64).wrapping_mul(0x1000_0000_01b3);
        }
        h ^= step.wrapping_mul(0xD6E8_FEB8_6659_FD93);
        let mut r = Rng(h);
        r.next_u64();
        r.next_u64();
        r
    }
    #[inline]
    pub fn next_u64(&mut self) -> u64 {
        self.0 = self.0.wrapping_add(0x9E37_79B9_7F4A_7C15);
        let mut z = self.0;
        z = (z ^ (z >> 30)).wrapping_mul(0xBF58_476D_1CE4_E5B9);
        z = (z ^ (z >> 27)).wrapping_mul(0x94D0_49BB_1331_11EB);
        z ^ (z >> 31)
    }
    /// uniform in [0, n)
    pub fn below(&mut self, n: u64) -> u64 {
        if n == 0 {
            0
        } else {
            self.next_u64() % n
        }
    }
    /// uniform in [lo, hi]
    pub fn range(&mut self, lo: u64, hi: u64) -> u64 {
        if hi <= lo {
            lo
        } else {
            lo + self.below(hi - lo + 1)
        }
    }
    pub fn f64(&mut self) -> f64 {
        (self.next_u64() >> 11) as f64 / (1u64 << 53) as f64
    }
    pub fn chance(&mut self, p: f64) -> bool {
        p > 0.0 && self.f64() < p
    }
    pub fn pick<'a, T>(&mut self, xs: &'a [T]) -> &'a T {
        &xs[self.below(xs.len() as u64) as usize]
    }
}

pub fn fnv64(data: &[u8]) -> u64 {
    let mut h = 0xcbf2_9ce4_8422_2325u64;
    for b in data {
        h ^= *b as u64;
        h = h.wrapping_mul(0x0000_0100_0000_01b3);
    }
    h
}

#[derive(Default)]
pub struct SimState {
    pub seed: u64,
    /// rolling hash of the event log
    pub ev_hash: u64,
    pub ev_count: u64,
    /// last events (bounded ring), kept for replay files / debugging
    pub ev_tail: std::collections::VecDeque<String>,
    pub ev_keep: usize,
    /// full log (only when requested: determinism self-test / replay dump)
    pub ev_full: Option<Vec<String>>,
    /// counters: faults fired, probes hit
    pub counters: BTreeMap<String, u64>,
}

thread_local! {
    static SIM: RefCell<SimState> = RefCell::new(SimState { ev_keep: 60, ..Default::default() });
}

pub fn reset(seed: u64, keep_full: bool) {
    SIM.with(|s| {
        let mut s = s.borrow_mut();
        *s = SimState {
            seed,
            ev_keep: 60,
            ev_hash: 0xcbf2_9ce4_8422_2325,
            ev_full: if keep_full { Some(Vec::new()) } else { None },
            ..Default::default()
        };
    });
}

pub fn seed() -> u64 {
    SIM.with(|s| s.borrow().seed)
}

/// Simulated time in microseconds since the start of the run (0 outside a runtime).
pub fn now_us() -> u64 {
    crate::fs::sim_elapsed_us()
}

/// Append to the event log. Never draws from a PRNG, never reads a real clock.
pub static TRACE: std::sync::atomic::AtomicBool = std::sync::atomic::AtomicBool::new(false);

pub fn event(s: &str) {
    let t = now_us();
    if TRACE.load(std::sync::atomic::Ordering::Relaxed) {
        eprintln!("ev t={} {}", t, s);
    }
    SIM.with(|st| {
        let mut st = st.borrow_mut();
        st.ev_count += 1;
        let n = st.ev_count;
        let line = format!("{} t={} {}", n, t, s);
        let mut h = st.ev_hash;
        for b in line.bytes() {
            h ^= b as u64;
            h = h.wrapping_mul(0x0000_0100_0000_01b3);
        }
        st.ev_hash = h;
        if let Some(full) = st.ev_full.as_mut() {
            full.push(line.clone());
        }
        if st.ev_keep > 0 {
            if st.ev_tail.len() >= st.ev_keep {
                st.ev_tail.pop_front();
            }
            st.ev_tail.push_back(line);
        }
    });
}

/// global event sequence number (number of events logged so far)
pub fn ev_seq() -> u64 {
    SIM.with(|st| st.borrow().ev_count)
}

pub fn count(name: &str, n: u64) {
    SIM.with(|st| {
        *st.borrow_mut().counters.entry(name.to_string()).or_insert(0) += n;
    });
}

pub fn counter(name: &str) -> u64 {
    SIM.with(|st| st.borrow().counters.get(name).copied().unwrap_or(0))
}

pub fn snapshot() -> (u64, u64, Vec<String>, BTreeMap<String, u64>, Option<Vec<String>>) {
    SIM.with(|st| {
        let st = st.borrow();
        (
            st.ev_hash,
            st.ev_count,
            st.ev_tail.iter().cloned().collect(),
            st.counters.clone(),
            st.ev_full.clone(),
        )
    })
}
