//! Facade over tokio: everything is re-exported from the real crate except `fs`,
//! which is a deterministic simulated disk (see `fs.rs`), and `sim`, the
//! simulator core (PRNG, event log) shared by all seams.
pub use real_tokio::*;
pub mod fs;
pub mod sim;
