//! Deterministic simulated disk standing in for `tokio::fs`.
//!
//! Semantics copied from `tokio::fs::File`:
//!  * `poll_write` accepts the bytes and returns at once; the mutation *completes*
//!    (is applied to the disk and appended to the journal) after a PRNG latency,
//!    never before an earlier-issued mutation has completed (global issue order ==
//!    completion order); the next operation on the same handle and `flush` wait
//!    for completion; a failed write surfaces on the next write/flush of the handle.
//!  * `try_clone` shares the file offset (dup semantics).
//!  * `metadata` does not wait for in-flight writes.
//!
//! Paths: a component `X.e<digits>` names incarnation `<digits>` of node `X`; the
//! suffix is stripped, so every incarnation of a node sees one simulated disk.
//! `crash(node)` bumps the node's epoch: pending (issued, not completed) mutations
//! of older epochs are lost and every handle of an older epoch fails with EIO.
use crate::sim::{self, Rng};
use real_tokio::io::{AsyncRead, AsyncSeek, AsyncWrite, ReadBuf};
use real_tokio::time::{Duration, Instant};
use std::cell::RefCell;
use std::collections::{BTreeMap, HashMap, VecDeque};
use std::io::{self, SeekFrom};
use std::path::{Path, PathBuf};
use std::pin::Pin;
use std::sync::atomic::{AtomicU64, Ordering};
use std::sync::Arc;
use std::task::{Context, Poll, Waker};

const EIO: i32 = 5;
const ENOSPC: i32 = 28;
const MAX_READ: usize = 2 * 1024 * 1024;

#[derive(Clone, Debug, PartialEq)]
pub enum JOp {
    Create { name: String, ino: u64 },
    Write { ino: u64, off: u64, data: Vec<u8> },
    SetLen { ino: u64, len: u64 },
    Rename { from: String, to: String },
    Unlink { name: String },
    Flush { ino: u64 },
    Nop,
}

#[derive(Clone, Debug)]
pub struct JEntry {
    pub seq: u64,
    pub node: String,
    pub epoch: u64,
    pub op: JOp,
}

#[derive(Clone, Debug, Default)]
pub struct Image {
    pub names: BTreeMap<String, u64>,
    pub inodes: BTreeMap<u64, Vec<u8>>,
}

impl Image {
    pub fn apply(&mut self, op: &JOp) {
        match op {
            JOp::Create { name, ino } => {
                self.names.insert(name.clone(), *ino);
                self.inodes.entry(*ino).or_default();
            }
            JOp::Write { ino, off, data } => {
                let f = self.inodes.entry(*ino).or_default();
                let end = *off as usize + data.len();
                if f.len() < end {
                    f.resize(end, 0);
                }
                f[*off as usize..end].copy_from_slice(data);
            }
            JOp::SetLen { ino, len } => {
                self.inodes.entry(*ino).or_default().resize(*len as usize, 0);
            }
            JOp::Rename { from, to } => {
                if let Some(i) = self.names.remove(from) {
                    self.names.insert(to.clone(), i);
                }
            }
            JOp::Unlink { name } => {
                self.names.remove(name);
            }
            JOp::Flush { .. } | JOp::Nop => {}
        }
    }
    pub fn file(&self, name: &str) -> Option<&Vec<u8>> {
        self.names.get(name).and_then(|i| self.inodes.get(i))
    }
    /// deterministic digest of the visible files
    pub fn digest(&self) -> u64 {
        let mut h = 0xcbf2_9ce4_8422_2325u64;
        // (in name order: the map's iteration order is not part of the image)
        let mut names: Vec<_> = self.names.iter().collect();
        names.sort();
        for (n, i) in names {
            // (node and file name only: the run's scratch root carries the process id)
            let rel: Vec<&str> = n.rsplit('/').take(2).collect();
            h ^= sim::fnv64(rel.join("/").as_bytes());
            h = h.wrapping_mul(0x0000_0100_0000_01b3);
            if let Some(d) = self.inodes.get(i) {
                h ^= sim::fnv64(d);
                h = h.wrapping_mul(0x0000_0100_0000_01b3);
            }
        }
        h
    }
}

#[derive(Clone, Debug)]
pub struct DiskCfg {
    /// probability that a mutation / read gets a non-zero latency
    pub p_delay: f64,
    pub max_delay_us: u64,
    /// probability of a single cooperative yield at a poll point
    pub p_yield: f64,
    pub p_eio_write: f64,
    pub p_enospc_write: f64,
    pub p_short_write: f64,
    pub p_short_read: f64,
    pub p_eio_read: f64,
    pub p_eio_flush: f64,
    pub p_err_set_len: f64,
    /// faults only fire for paths containing this substring (empty = all)
    pub fault_path_filter: String,
}

impl Default for DiskCfg {
    fn default() -> Self {
        DiskCfg {
            p_delay: 0.0,
            max_delay_us: 0,
            p_yield: 0.0,
            p_eio_write: 0.0,
            p_enospc_write: 0.0,
            p_short_write: 0.0,
            p_short_read: 0.0,
            p_eio_read: 0.0,
            p_eio_flush: 0.0,
            p_err_set_len: 0.0,
            fault_path_filter: String::new(),
        }
    }
}

struct PendingOp {
    seq: u64,
    node: String,
    epoch: u64,
    handle: u64,
    op: JOp,
    at: Instant,
    fail: Option<i32>,
}

pub struct SimDisk {
    pub img: Image,
    pub journal: Vec<JEntry>,
    pub journal_on: bool,
    pending: VecDeque<PendingOp>,
    next_seq: u64,
    completed_upto: u64,
    next_ino: u64,
    next_handle: u64,
    epochs: HashMap<String, u64>,
    full: HashMap<String, bool>,
    handle_err: HashMap<u64, i32>,
    waiters: Vec<Waker>,
    rng: Rng,
    pub cfg: DiskCfg,
    last_at: Option<Instant>,
    /// when set, every mutation is also reported to the event log (hash only)
    pub log_ops: bool,
}

impl SimDisk {
    fn new() -> Self {
        SimDisk {
            img: Image::default(),
            journal: Vec::new(),
            journal_on: true,
            pending: VecDeque::new(),
            next_seq: 1,
            completed_upto: 0,
            next_ino: 1,
            next_handle: 1,
            epochs: HashMap::new(),
            full: HashMap::new(),
            handle_err: HashMap::new(),
            waiters: Vec::new(),
            rng: Rng::new(1),
            cfg: DiskCfg::default(),
            last_at: None,
            log_ops: true,
        }
    }

    fn cur_epoch(&self, node: &str) -> u64 {
        self.epochs.get(node).copied().unwrap_or(0)
    }

    fn fenced(&self, node: &str, epoch: u64) -> bool {
        !node.is_empty() && epoch < self.cur_epoch(node)
    }

    fn fault_applies(&self, name: &str) -> bool {
        self.cfg.fault_path_filter.is_empty() || name.contains(&self.cfg.fault_path_filter)
    }

    fn apply(&mut self, p: PendingOp) {
        if self.fenced(&p.node, p.epoch) {
            sim::count("disk.lost_on_crash", 1);
            if self.log_ops {
                sim::event(&format!("disk lost seq={} {}", p.seq, op_brief(&p.op)));
            }
            return;
        }
        if let Some(code) = p.fail {
            self.handle_err.insert(p.handle, code);
            if self.log_ops {
                sim::event(&format!("disk fail seq={} code={} {}", p.seq, code, op_brief(&p.op)));
            }
            return;
        }
        if matches!(p.op, JOp::Nop) {
            return;
        }
        self.img.apply(&p.op);
        if self.log_ops {
            sim::event(&format!("disk done seq={} {}", p.seq, op_brief(&p.op)));
        }
        if self.journal_on {
            self.journal.push(JEntry {
                seq: p.seq,
                node: p.node,
                epoch: p.epoch,
                op: p.op,
            });
        }
    }

    /// apply every pending op whose completion time has been reached
    fn complete_due(&mut self, now: Instant) {
        let mut any = false;
        while let Some(front) = self.pending.front() {
            if front.at <= now {
                let p = self.pending.pop_front().unwrap();
                self.completed_upto = p.seq;
                self.apply(p);
                any = true;
            } else {
                break;
            }
        }
        if self.pending.is_empty() {
            self.completed_upto = self.next_seq - 1;
        }
        if any || self.pending.is_empty() {
            for w in self.waiters.drain(..) {
                w.wake();
            }
        }
    }

    fn is_done(&self, seq: u64) -> bool {
        seq == 0 || seq <= self.completed_upto || self.pending.front().map(|p| p.seq > seq).unwrap_or(true)
    }

    /// issue an operation; returns its sequence number. Applied at once when the
    /// drawn latency is zero and nothing is queued before it.
    fn issue(&mut self, node: &str, epoch: u64, handle: u64, op: JOp, fail: Option<i32>, allow_delay: bool) -> u64 {
        let seq = self.next_seq;
        self.next_seq += 1;
        let now = Instant::now();
        let mut d = 0u64;
        if allow_delay && self.cfg.max_delay_us > 0 && self.rng.chance(self.cfg.p_delay) {
            d = self.rng.range(1, self.cfg.max_delay_us);
            sim::count("disk.delayed_ops", 1);
        }
        let mut at = now + Duration::from_micros(d);
        if let Some(last) = self.last_at {
            if !self.pending.is_empty() && last > at {
                at = last;
            }
        }
        if self.log_ops && !matches!(op, JOp::Nop) {
            sim::event(&format!("disk issue seq={} d={} {}", seq, d, op_brief(&op)));
        }
        let p = PendingOp {
            seq,
            node: node.to_string(),
            epoch,
            handle,
            op,
            at,
            fail,
        };
        if self.pending.is_empty() && at <= now {
            self.completed_upto = seq;
            self.apply(p);
        } else {
            self.last_at = Some(at);
            self.pending.push_back(p);
            if at > now {
                real_tokio::spawn(async move {
                    real_tokio::time::sleep_until(at).await;
                    with_disk(|d| d.complete_due(Instant::now()));
                });
            } else {
                // same instant as the queue tail: completed by the tail's timer
            }
        }
        seq
    }
}

fn op_brief(op: &JOp) -> String {
    match op {
        JOp::Create { name, ino } => format!("create {} i{}", short(name), ino),
        JOp::Write { ino, off, data } => format!("write i{} @{} +{} h={:x}", ino, off, data.len(), sim::fnv64(data) & 0xffff_ffff),
        JOp::SetLen { ino, len } => format!("set_len i{} {}", ino, len),
        JOp::Rename { from, to } => format!("rename {} {}", short(from), short(to)),
        JOp::Unlink { name } => format!("unlink {}", short(name)),
        JOp::Flush { ino } => format!("flush i{}", ino),
        JOp::Nop => "nop".to_string(),
    }
}

fn short(p: &str) -> &str {
    // keep the last two components
    let mut it = p.rmatch_indices('/');
    it.next();
    match it.next() {
        Some((i, _)) => &p[i + 1..],
        None => p,
    }
}

thread_local! {
    static DISK: RefCell<SimDisk> = RefCell::new(SimDisk::new());
    static START: std::cell::Cell<Option<Instant>> = const { std::cell::Cell::new(None) };
}

pub fn with_disk<R>(f: impl FnOnce(&mut SimDisk) -> R) -> R {
    DISK.with(|d| f(&mut d.borrow_mut()))
}

/// Reset the simulated disk for a new run. Must be called inside the runtime.
pub fn reset(seed: u64, cfg: DiskCfg) {
    with_disk(|d| {
        *d = SimDisk::new();
        d.rng = Rng::derive(seed, "disk", 0);
        d.cfg = cfg;
    });
    START.with(|s| s.set(Some(Instant::now())));
}

pub fn set_cfg(cfg: DiskCfg) {
    with_disk(|d| d.cfg = cfg);
}

pub fn sim_elapsed_us() -> u64 {
    if real_tokio::runtime::Handle::try_current().is_err() {
        return 0;
    }
    match START.with(|s| s.get()) {
        Some(s) => Instant::now().saturating_duration_since(s).as_micros() as u64,
        None => 0,
    }
}

/// Split a path into (canonical name, node, epoch).
pub fn canon(p: &Path) -> (String, String, u64) {
    let s = p.to_string_lossy();
    let mut out = String::with_capacity(s.len());
    let mut node = String::new();
    let mut epoch = 0u64;
    for (i, comp) in s.split('/').enumerate() {
        if i > 0 {
            out.push('/');
        }
        match comp.rfind(".e") {
            Some(k) if k + 2 < comp.len() && comp[k + 2..].bytes().all(|c| c.is_ascii_digit()) => {
                out.push_str(&comp[..k]);
                node = comp[..k].to_string();
                epoch = comp[k + 2..].parse().unwrap_or(0);
            }
            _ => out.push_str(comp),
        }
    }
    (out, node, epoch)
}

// ---------------------------------------------------------------------------
// control surface for the harness

/// Kill: only completed mutations survive.
pub fn crash(node: &str) -> u64 {
    with_disk(|d| {
        let e = d.cur_epoch(node) + 1;
        d.epochs.insert(node.to_string(), e);
        // drop the node's pending ops now (they would be discarded at completion anyway)
        let before = d.pending.len();
        let mut lost = 0;
        d.pending.retain(|p| {
            if p.node == node && p.epoch < e {
                lost += 1;
                false
            } else {
                true
            }
        });
        if lost > 0 {
            sim::count("disk.lost_on_crash", lost);
        }
        let _ = before;
        if d.pending.is_empty() {
            d.completed_upto = d.next_seq - 1;
        }
        for w in d.waiters.drain(..) {
            w.wake();
        }
        sim::event(&format!("disk crash node={} epoch={} lost={}", node, e, lost));
        e
    })
}

pub fn current_epoch(node: &str) -> u64 {
    with_disk(|d| d.cur_epoch(node))
}

pub fn set_epoch(node: &str, e: u64) {
    with_disk(|d| {
        d.epochs.insert(node.to_string(), e);
    });
}

pub fn set_full(node: &str, full: bool) {
    with_disk(|d| {
        d.full.insert(node.to_string(), full);
    });
    sim::event(&format!("disk full node={} {}", node, full));
}

pub fn pending_ops() -> usize {
    with_disk(|d| d.pending.len())
}

/// Wait until every issued mutation has completed.
pub async fn quiesce() {
    Quiesce.await
}

struct Quiesce;
impl std::future::Future for Quiesce {
    type Output = ();
    fn poll(self: Pin<&mut Self>, cx: &mut Context<'_>) -> Poll<()> {
        with_disk(|d| {
            d.complete_due(Instant::now());
            if d.pending.is_empty() {
                Poll::Ready(())
            } else {
                d.waiters.push(cx.waker().clone());
                Poll::Pending
            }
        })
    }
}

pub fn journal_len() -> usize {
    with_disk(|d| d.journal.len())
}

pub fn journal_clone() -> Vec<JEntry> {
    with_disk(|d| d.journal.clone())
}

pub fn image_clone() -> Image {
    with_disk(|d| d.img.clone())
}

/// Replace the visible files under `prefix` by those of `img` (inode numbers are re-assigned).
pub fn install_image(prefix: &str, img: &Image) {
    with_disk(|d| {
        let old: Vec<String> = d.img.names.keys().filter(|n| n.starts_with(prefix)).cloned().collect();
        for n in old {
            d.img.names.remove(&n);
        }
        for (name, ino) in &img.names {
            if !name.starts_with(prefix) {
                continue;
            }
            let new_ino = d.next_ino;
            d.next_ino += 1;
            d.img.names.insert(name.clone(), new_ino);
            d.img.inodes.insert(new_ino, img.inodes.get(ino).cloned().unwrap_or_default());
        }
    });
}

/// Image obtained by replaying the first `k` journal entries of `node`.
pub fn image_at(journal: &[JEntry], node: &str, k: usize) -> Image {
    let mut img = Image::default();
    let mut n = 0;
    for e in journal {
        if e.node != node {
            continue;
        }
        if n >= k {
            break;
        }
        img.apply(&e.op);
        n += 1;
    }
    img
}

pub fn read_file_raw(name: &str) -> Option<Vec<u8>> {
    with_disk(|d| d.img.file(name).cloned())
}

pub fn write_file_raw(name: &str, data: Vec<u8>) {
    with_disk(|d| {
        let ino = match d.img.names.get(name) {
            Some(i) => *i,
            None => {
                let i = d.next_ino;
                d.next_ino += 1;
                d.img.names.insert(name.to_string(), i);
                i
            }
        };
        d.img.inodes.insert(ino, data);
    });
}

pub fn list_files(prefix: &str) -> Vec<(String, usize)> {
    with_disk(|d| {
        d.img
            .names
            .iter()
            .filter(|(n, _)| n.starts_with(prefix))
            .map(|(n, i)| (n.clone(), d.img.inodes.get(i).map(|v| v.len()).unwrap_or(0)))
            .collect()
    })
}

/// Mirror of `std::fs::remove_file` (repo hook H3): immediate, not queued.
pub fn verif_unlink_sync(path: impl AsRef<Path>) {
    let (name, node, epoch) = canon(path.as_ref());
    with_disk(|d| {
        if d.fenced(&node, epoch) {
            return;
        }
        if d.img.names.contains_key(&name) {
            let seq = d.next_seq;
            d.next_seq += 1;
            let op = JOp::Unlink { name };
            d.img.apply(&op);
            if d.log_ops {
                sim::event(&format!("disk sync seq={} {}", seq, op_brief(&op)));
            }
            if d.journal_on {
                d.journal.push(JEntry { seq, node, epoch, op });
            }
            if d.pending.is_empty() {
                d.completed_upto = seq;
            }
        }
    });
}

// ---------------------------------------------------------------------------
// tokio::fs API

fn os_err(code: i32) -> io::Error {
    io::Error::from_raw_os_error(code)
}

#[derive(Debug)]
pub struct File {
    id: u64,
    ino: u64,
    name: String,
    node: String,
    epoch: u64,
    pos: Arc<AtomicU64>,
    last_seq: u64,
    ticket: u64,
    yielded: bool,
    can_read: bool,
    can_write: bool,
    seek_to: Option<u64>,
}

pub struct Metadata {
    len: u64,
}
impl Metadata {
    #[allow(clippy::len_without_is_empty)]
    pub fn len(&self) -> u64 {
        self.len
    }
    pub fn is_file(&self) -> bool {
        true
    }
    pub fn is_dir(&self) -> bool {
        false
    }
}

#[derive(Clone, Debug, Default)]
pub struct OpenOptions {
    read: bool,
    write: bool,
    create: bool,
    create_new: bool,
    truncate: bool,
    append: bool,
}

impl OpenOptions {
    pub fn new() -> Self {
        Self::default()
    }
    pub fn read(&mut self, v: bool) -> &mut Self {
        self.read = v;
        self
    }
    pub fn write(&mut self, v: bool) -> &mut Self {
        self.write = v;
        self
    }
    pub fn create(&mut self, v: bool) -> &mut Self {
        self.create = v;
        self
    }
    pub fn create_new(&mut self, v: bool) -> &mut Self {
        self.create_new = v;
        self
    }
    pub fn truncate(&mut self, v: bool) -> &mut Self {
        self.truncate = v;
        self
    }
    pub fn append(&mut self, v: bool) -> &mut Self {
        self.append = v;
        self
    }
    pub async fn open(&self, path: impl AsRef<Path>) -> io::Result<File> {
        let (name, node, epoch) = canon(path.as_ref());
        maybe_delay().await;
        let o = self.clone();
        // open(2) is synchronous for the caller: a creation / truncation has taken effect
        // (in issue order) when `open` returns
        let (file, wait) = with_disk(|d| {
            if d.fenced(&node, epoch) {
                return Err(os_err(EIO));
            }
            let mut wait = 0u64;
            // a name whose creation is still queued exists for the purpose of lookup
            let queued = d.pending.iter().rev().find_map(|p| match &p.op {
                JOp::Create { name: n, ino } if *n == name => Some(Some(*ino)),
                JOp::Unlink { name: n } if *n == name => Some(None),
                JOp::Rename { to, .. } if *to == name => Some(None),
                _ => None,
            });
            let existing = match queued {
                Some(x) => x,
                None => d.img.names.get(&name).copied(),
            };
            let ino = match existing {
                Some(i) => {
                    if o.create_new {
                        return Err(io::Error::new(io::ErrorKind::AlreadyExists, "sim: exists"));
                    }
                    if queued.is_some() {
                        wait = d.next_seq - 1;
                    }
                    i
                }
                None => {
                    if !(o.create || o.create_new) {
                        return Err(io::Error::new(io::ErrorKind::NotFound, "sim: not found"));
                    }
                    if d.full.get(&node).copied().unwrap_or(false) {
                        sim::count("disk.fault.enospc_create", 1);
                        return Err(os_err(ENOSPC));
                    }
                    let ino = d.next_ino;
                    d.next_ino += 1;
                    wait = d.issue(&node, epoch, 0, JOp::Create { name: name.clone(), ino }, None, false);
                    ino
                }
            };
            let id = d.next_handle;
            d.next_handle += 1;
            if o.truncate && o.write {
                wait = d.issue(&node, epoch, id, JOp::SetLen { ino, len: 0 }, None, false);
            }
            Ok((
                File {
                    id,
                    ino,
                    name,
                    node,
                    epoch,
                    pos: Arc::new(AtomicU64::new(0)),
                    last_seq: 0,
                    ticket: 0,
                    yielded: false,
                    can_read: o.read || !o.write,
                    can_write: o.write || o.append,
                    seek_to: None,
                },
                wait,
            ))
        })?;
        WaitSeq(wait).await;
        if o.append {
            let len = with_disk(|d| d.img.inodes.get(&file.ino).map(|v| v.len()).unwrap_or(0)) as u64;
            file.pos.store(len, Ordering::Relaxed);
        }
        with_disk(|d| if d.fenced(&file.node, file.epoch) { Err(os_err(EIO)) } else { Ok(()) })?;
        Ok(file)
    }
}

async fn maybe_delay() {
    let d = with_disk(|d| {
        if d.cfg.max_delay_us > 0 && d.rng.chance(d.cfg.p_delay * 0.5) {
            d.rng.range(1, d.cfg.max_delay_us)
        } else {
            0
        }
    });
    if d > 0 {
        real_tokio::time::sleep(Duration::from_micros(d)).await;
    }
}

struct WaitSeq(u64);
impl std::future::Future for WaitSeq {
    type Output = ();
    fn poll(self: Pin<&mut Self>, cx: &mut Context<'_>) -> Poll<()> {
        with_disk(|d| {
            d.complete_due(Instant::now());
            if d.is_done(self.0) {
                Poll::Ready(())
            } else {
                d.waiters.push(cx.waker().clone());
                Poll::Pending
            }
        })
    }
}

impl File {
    pub async fn open(path: impl AsRef<Path>) -> io::Result<File> {
        OpenOptions::new().read(true).open(path).await
    }
    pub async fn create(path: impl AsRef<Path>) -> io::Result<File> {
        OpenOptions::new().write(true).create(true).truncate(true).open(path).await
    }
    pub fn options() -> OpenOptions {
        OpenOptions::new()
    }
    pub async fn metadata(&self) -> io::Result<Metadata> {
        with_disk(|d| {
            if d.fenced(&self.node, self.epoch) {
                return Err(os_err(EIO));
            }
            Ok(Metadata {
                len: d.img.inodes.get(&self.ino).map(|v| v.len()).unwrap_or(0) as u64,
            })
        })
    }
    pub async fn set_len(&self, len: u64) -> io::Result<()> {
        WaitSeq(self.last_seq).await;
        let seq = with_disk(|d| {
            if d.fenced(&self.node, self.epoch) {
                return Err(os_err(EIO));
            }
            let cur = d.img.inodes.get(&self.ino).map(|v| v.len()).unwrap_or(0) as u64;
            if len > cur && d.full.get(&self.node).copied().unwrap_or(false) {
                sim::count("disk.fault.enospc_set_len", 1);
                return Err(os_err(ENOSPC));
            }
            if d.fault_applies(&self.name) && d.rng.chance(d.cfg.p_err_set_len) {
                sim::count("disk.fault.err_set_len", 1);
                return Err(os_err(if len > cur { ENOSPC } else { EIO }));
            }
            Ok(d.issue(&self.node, self.epoch, self.id, JOp::SetLen { ino: self.ino, len }, None, true))
        })?;
        WaitSeq(seq).await;
        with_disk(|d| if d.fenced(&self.node, self.epoch) { Err(os_err(EIO)) } else { Ok(()) })
    }
    pub async fn try_clone(&self) -> io::Result<File> {
        WaitSeq(self.last_seq).await;
        with_disk(|d| {
            if d.fenced(&self.node, self.epoch) {
                return Err(os_err(EIO));
            }
            let id = d.next_handle;
            d.next_handle += 1;
            Ok(File {
                id,
                ino: self.ino,
                name: self.name.clone(),
                node: self.node.clone(),
                epoch: self.epoch,
                pos: self.pos.clone(),
                last_seq: 0,
                ticket: 0,
                yielded: false,
                can_read: self.can_read,
                can_write: self.can_write,
                seek_to: None,
            })
        })
    }
    pub async fn sync_all(&self) -> io::Result<()> {
        WaitSeq(self.last_seq).await;
        Ok(())
    }
    pub async fn sync_data(&self) -> io::Result<()> {
        WaitSeq(self.last_seq).await;
        Ok(())
    }

    /// common prelude of every poll: fencing, in-flight wait, optional single yield
    fn prelude(&mut self, cx: &mut Context<'_>) -> Poll<io::Result<()>> {
        let last = self.last_seq;
        let yielded = self.yielded;
        let me = &*self;
        // 0 = go on, 1 = pending (waiter registered), 2 = yield once
        let r: Result<u8, io::Error> = with_disk(|d| {
            if d.fenced(&me.node, me.epoch) {
                return Err(os_err(EIO));
            }
            d.complete_due(Instant::now());
            if !d.is_done(last) {
                d.waiters.push(cx.waker().clone());
                return Ok(1);
            }
            if !yielded && d.cfg.p_yield > 0.0 && d.rng.chance(d.cfg.p_yield) {
                sim::count("disk.yields", 1);
                return Ok(2);
            }
            Ok(0)
        });
        match r {
            Err(e) => Poll::Ready(Err(e)),
            Ok(0) => Poll::Ready(Ok(())),
            Ok(1) => Poll::Pending,
            Ok(_) => {
                self.yielded = true;
                cx.waker().wake_by_ref();
                Poll::Pending
            }
        }
    }
}

impl AsyncRead for File {
    fn poll_read(mut self: Pin<&mut Self>, cx: &mut Context<'_>, buf: &mut ReadBuf<'_>) -> Poll<io::Result<()>> {
        match self.prelude(cx) {
            Poll::Pending => return Poll::Pending,
            Poll::Ready(Err(e)) => return Poll::Ready(Err(e)),
            Poll::Ready(Ok(())) => {}
        }
        // read latency: a private timer (reads do not queue behind other handles' writes)
        if self.ticket == 0 {
            let t = with_disk(|d| {
                if d.cfg.max_delay_us > 0 && d.rng.chance(d.cfg.p_delay * 0.5) {
                    Some(d.rng.range(1, d.cfg.max_delay_us))
                } else {
                    None
                }
            });
            if let Some(dl) = t {
                self.ticket = 1;
                sim::count("disk.delayed_reads", 1);
                let at = Instant::now() + Duration::from_micros(dl);
                let w = cx.waker().clone();
                real_tokio::spawn(async move {
                    real_tokio::time::sleep_until(at).await;
                    w.wake();
                });
                return Poll::Pending;
            }
        }
        self.ticket = 0;
        self.yielded = false;
        let me = &mut *self;
        let r = with_disk(|d| {
            if d.fault_applies(&me.name) && d.rng.chance(d.cfg.p_eio_read) {
                sim::count("disk.fault.eio_read", 1);
                return Err(os_err(EIO));
            }
            let data = match d.img.inodes.get(&me.ino) {
                Some(v) => v,
                None => return Ok(()),
            };
            let pos = me.pos.load(Ordering::Relaxed) as usize;
            if pos < data.len() {
                let mut n = std::cmp::min(buf.remaining(), data.len() - pos);
                n = std::cmp::min(n, MAX_READ);
                if n > 1 && d.cfg.p_short_read > 0.0 && d.rng.chance(d.cfg.p_short_read) {
                    n = d.rng.range(1, n as u64 - 1) as usize;
                    sim::count("disk.fault.short_read", 1);
                }
                buf.put_slice(&data[pos..pos + n]);
                me.pos.store((pos + n) as u64, Ordering::Relaxed);
            }
            Ok(())
        });
        Poll::Ready(r)
    }
}

impl AsyncWrite for File {
    fn poll_write(mut self: Pin<&mut Self>, cx: &mut Context<'_>, src: &[u8]) -> Poll<io::Result<usize>> {
        match self.prelude(cx) {
            Poll::Pending => return Poll::Pending,
            Poll::Ready(Err(e)) => return Poll::Ready(Err(e)),
            Poll::Ready(Ok(())) => {}
        }
        self.yielded = false;
        if !self.can_write {
            return Poll::Ready(Err(io::Error::new(io::ErrorKind::PermissionDenied, "sim: not open for write")));
        }
        let me = &mut *self;
        let r = with_disk(|d| {
            if let Some(code) = d.handle_err.remove(&me.id) {
                return Err(os_err(code));
            }
            if src.is_empty() {
                return Ok(0);
            }
            let mut n = std::cmp::min(src.len(), MAX_READ);
            let faults = d.fault_applies(&me.name);
            if faults && n > 1 && d.rng.chance(d.cfg.p_short_write) {
                n = d.rng.range(1, n as u64 - 1) as usize;
                sim::count("disk.fault.short_write", 1);
            }
            let pos = me.pos.load(Ordering::Relaxed);
            let cur = d.img.inodes.get(&me.ino).map(|v| v.len()).unwrap_or(0) as u64;
            let mut fail = None;
            if pos + n as u64 > cur && d.full.get(&me.node).copied().unwrap_or(false) {
                fail = Some(ENOSPC);
                sim::count("disk.fault.enospc_full", 1);
            } else if faults && d.rng.chance(d.cfg.p_eio_write) {
                fail = Some(EIO);
                sim::count("disk.fault.eio_write", 1);
            } else if faults && d.rng.chance(d.cfg.p_enospc_write) {
                fail = Some(ENOSPC);
                sim::count("disk.fault.enospc_write", 1);
            }
            let seq = d.issue(
                &me.node,
                me.epoch,
                me.id,
                JOp::Write {
                    ino: me.ino,
                    off: pos,
                    data: src[..n].to_vec(),
                },
                fail,
                true,
            );
            me.last_seq = seq;
            me.pos.store(pos + n as u64, Ordering::Relaxed);
            Ok(n)
        });
        Poll::Ready(r)
    }

    fn poll_flush(mut self: Pin<&mut Self>, cx: &mut Context<'_>) -> Poll<io::Result<()>> {
        match self.prelude(cx) {
            Poll::Pending => return Poll::Pending,
            Poll::Ready(Err(e)) => return Poll::Ready(Err(e)),
            Poll::Ready(Ok(())) => {}
        }
        self.yielded = false;
        let me = &mut *self;
        let r = with_disk(|d| {
            if let Some(code) = d.handle_err.remove(&me.id) {
                return Err(os_err(code));
            }
            if d.fault_applies(&me.name) && d.rng.chance(d.cfg.p_eio_flush) {
                sim::count("disk.fault.eio_flush", 1);
                return Err(os_err(EIO));
            }
            if me.can_write {
                d.issue(&me.node, me.epoch, me.id, JOp::Flush { ino: me.ino }, None, false);
            }
            Ok(())
        });
        Poll::Ready(r)
    }

    fn poll_shutdown(self: Pin<&mut Self>, cx: &mut Context<'_>) -> Poll<io::Result<()>> {
        self.poll_flush(cx)
    }
}

impl AsyncSeek for File {
    fn start_seek(mut self: Pin<&mut Self>, position: SeekFrom) -> io::Result<()> {
        let pos = match position {
            SeekFrom::Start(p) => p,
            SeekFrom::End(o) => {
                let len = with_disk(|d| d.img.inodes.get(&self.ino).map(|v| v.len()).unwrap_or(0)) as i64;
                (len + o).max(0) as u64
            }
            SeekFrom::Current(o) => (self.pos.load(Ordering::Relaxed) as i64 + o).max(0) as u64,
        };
        self.seek_to = Some(pos);
        Ok(())
    }
    fn poll_complete(mut self: Pin<&mut Self>, cx: &mut Context<'_>) -> Poll<io::Result<u64>> {
        // like tokio: an in-flight write finishes before the seek takes effect
        let last = self.last_seq;
        let (node, epoch) = (self.node.clone(), self.epoch);
        let r = with_disk(|d| {
            if d.fenced(&node, epoch) {
                return Poll::Ready(Err(os_err(EIO)));
            }
            d.complete_due(Instant::now());
            if !d.is_done(last) {
                d.waiters.push(cx.waker().clone());
                return Poll::Pending;
            }
            Poll::Ready(Ok(()))
        });
        match r {
            Poll::Pending => Poll::Pending,
            Poll::Ready(Err(e)) => Poll::Ready(Err(e)),
            Poll::Ready(Ok(())) => {
                if let Some(p) = self.seek_to.take() {
                    self.pos.store(p, Ordering::Relaxed);
                }
                Poll::Ready(Ok(self.pos.load(Ordering::Relaxed)))
            }
        }
    }
}

pub async fn create_dir_all(_p: impl AsRef<Path>) -> io::Result<()> {
    Ok(())
}
pub async fn create_dir(_p: impl AsRef<Path>) -> io::Result<()> {
    Ok(())
}

pub async fn remove_dir_all(p: impl AsRef<Path>) -> io::Result<()> {
    let (name, node, epoch) = canon(p.as_ref());
    let prefix = format!("{}/", name.trim_end_matches('/'));
    with_disk(|d| {
        if d.fenced(&node, epoch) {
            return Err(os_err(EIO));
        }
        let names: Vec<String> = d.img.names.keys().filter(|n| n.starts_with(&prefix)).cloned().collect();
        for n in names {
            d.issue(&node, epoch, 0, JOp::Unlink { name: n }, None, false);
        }
        Ok(())
    })
}

pub async fn remove_file(p: impl AsRef<Path>) -> io::Result<()> {
    let (name, node, epoch) = canon(p.as_ref());
    maybe_delay().await;
    let seq = with_disk(|d| {
        if d.fenced(&node, epoch) {
            return Err(os_err(EIO));
        }
        if !d.img.names.contains_key(&name) {
            return Err(io::Error::new(io::ErrorKind::NotFound, "sim: not found"));
        }
        Ok(d.issue(&node, epoch, 0, JOp::Unlink { name }, None, true))
    })?;
    WaitSeq(seq).await;
    Ok(())
}

pub async fn rename(a: impl AsRef<Path>, b: impl AsRef<Path>) -> io::Result<()> {
    let (from, node, epoch) = canon(a.as_ref());
    let (to, _, _) = canon(b.as_ref());
    maybe_delay().await;
    let seq = with_disk(|d| {
        if d.fenced(&node, epoch) {
            return Err(os_err(EIO));
        }
        if !d.img.names.contains_key(&from) {
            return Err(io::Error::new(io::ErrorKind::NotFound, "sim: not found"));
        }
        Ok(d.issue(&node, epoch, 0, JOp::Rename { from, to }, None, true))
    })?;
    WaitSeq(seq).await;
    Ok(())
}

pub async fn read_to_string(p: impl AsRef<Path>) -> io::Result<String> {
    let v = read(p).await?;
    String::from_utf8(v).map_err(|e| io::Error::new(io::ErrorKind::InvalidData, e))
}

pub async fn read(p: impl AsRef<Path>) -> io::Result<Vec<u8>> {
    let (name, node, epoch) = canon(p.as_ref());
    maybe_delay().await;
    with_disk(|d| {
        if d.fenced(&node, epoch) {
            return Err(os_err(EIO));
        }
        match d.img.file(&name) {
            Some(v) => Ok(v.clone()),
            None => Err(io::Error::new(io::ErrorKind::NotFound, "sim: not found")),
        }
    })
}

pub async fn write(p: impl AsRef<Path>, c: impl AsRef<[u8]>) -> io::Result<()> {
    use real_tokio::io::AsyncWriteExt;
    let mut f = File::create(p).await?;
    f.write_all(c.as_ref()).await?;
    f.flush().await?;
    Ok(())
}

pub async fn metadata(p: impl AsRef<Path>) -> io::Result<Metadata> {
    let (name, node, epoch) = canon(p.as_ref());
    with_disk(|d| {
        if d.fenced(&node, epoch) {
            return Err(os_err(EIO));
        }
        match d.img.file(&name) {
            Some(v) => Ok(Metadata { len: v.len() as u64 }),
            None => Err(io::Error::new(io::ErrorKind::NotFound, "sim: not found")),
        }
    })
}

pub async fn try_exists(p: impl AsRef<Path>) -> io::Result<bool> {
    let (name, _, _) = canon(p.as_ref());
    Ok(with_disk(|d| d.img.names.contains_key(&name)))
}

#[derive(Debug)]
pub struct DirEntry {
    path: PathBuf,
}
impl DirEntry {
    pub fn path(&self) -> PathBuf {
        self.path.clone()
    }
    pub fn file_name(&self) -> std::ffi::OsString {
        self.path.file_name().unwrap().to_owned()
    }
    pub async fn metadata(&self) -> io::Result<Metadata> {
        metadata(&self.path).await
    }
}
#[derive(Debug)]
pub struct ReadDir {
    items: Vec<PathBuf>,
}
impl ReadDir {
    pub async fn next_entry(&mut self) -> io::Result<Option<DirEntry>> {
        Ok(self.items.pop().map(|path| DirEntry { path }))
    }
}
pub async fn read_dir(p: impl AsRef<Path>) -> io::Result<ReadDir> {
    let (name, _node, _epoch) = canon(p.as_ref());
    // entries are returned under the caller's (un-canonicalised) directory so that
    // paths built from them keep the incarnation suffix
    let dir = p.as_ref().to_path_buf();
    let prefix = format!("{}/", name.trim_end_matches('/'));
    with_disk(|d| {
        let mut items: Vec<PathBuf> = d
            .img
            .names
            .keys()
            .filter(|k| k.starts_with(&prefix) && !k[prefix.len()..].contains('/'))
            .map(|k| dir.join(&k[prefix.len()..]))
            .collect();
        items.sort();
        items.reverse();
        Ok(ReadDir { items })
    })
}
