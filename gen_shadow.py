#!/usr/bin/env python3
"""Regenerate /verif/sim/shadow/Cargo.toml from /repo/Cargo.toml.

Same package, same dependency set, but: the library is /repo/src/lib.rs, there is
no [[bin]] / [workspace] / [profile], and `tokio` resolves to the simtokio facade.
The repo's own Cargo.toml and Cargo.lock stay untouched.
"""
import re, sys, os, shutil

REPO = os.environ.get("VERIF_REPO", "/repo")
SIM = os.path.join(os.path.dirname(os.path.abspath(__file__)), "sim")

def main():
    src = open(os.path.join(REPO, "Cargo.toml")).read()
    # split into sections
    parts = re.split(r'(?m)^(?=\[)', src)
    out = []
    for p in parts:
        head = p.split("\n", 1)[0].strip()
        if head.startswith("[workspace") or head.startswith("[[bin]]") or head.startswith("[profile") or head.startswith("[lib]"):
            continue
        if head == "[package]":
            p = re.sub(r'(?m)^readme\s*=.*\n', '', p)
        if head == "[dependencies]":
            p2, n = re.subn(r'(?m)^tokio\s*=.*$', 'tokio = { package = "simtokio", path = "../simtokio" }', p)
            if n != 1:
                sys.exit("gen_shadow: could not find the tokio dependency line")
            p = p2
        out.append(p)
    txt = "".join(out)
    txt = txt.replace("[features]", '[lib]\nname = "rnacos"\npath = "%s/src/lib.rs"\n\n[features]' % REPO, 1)
    if "[lib]" not in txt:
        txt += '\n[lib]\nname = "rnacos"\npath = "%s/src/lib.rs"\n' % REPO
    dst = os.path.join(SIM, "shadow", "Cargo.toml")
    os.makedirs(os.path.dirname(dst), exist_ok=True)
    old = open(dst).read() if os.path.exists(dst) else None
    if old != txt:
        open(dst, "w").write(txt)
    lock = os.path.join(SIM, "Cargo.lock")
    if not os.path.exists(lock):
        shutil.copy(os.path.join(REPO, "Cargo.lock"), lock)

if __name__ == "__main__":
    main()
