"""Static metadata per check: budgets, level, evidence texts. Counts in evidence are always measured."""

REAL = [
    "everything under /repo/src that the rig instantiates (actors, FileStore, codecs, handlers)",
    "actix actor runtime, tokio scheduler and timers (paused clock, auto-advance)",
    "quick-protobuf / prost / serde encoders",
]
STUB = [
    "tokio::fs -> simtokio::fs (simulated disk: issue/complete split, journal, crash epochs, fault injection)",
    "clock_gettime / getrandom / syscall(SYS_getrandom) -> simulated clock and seeded PRNG (binary-level interposition)",
    "OS threads of create_actor_at_thread* -> same arbiter (hook H1)",
    "db_lock contention (each incarnation has its own real directory holding only the lock file)",
]

RIG_L_REAL = [
    "RaftIndexManager, RaftLogManager + RaftLogActor/LogInnerManager, RaftSnapshotManager + SnapshotWriterActor, StateApplyManager (idle), FileStore via the RaftStorage trait",
    "MessageBufReader / FileMessageReader, quick-protobuf record codecs",
    "actix + tokio current-thread runtime with paused clock",
]
RIG_L_STUB = STUB + ["async-raft is played by the script (the harness calls the RaftStorage methods async-raft calls)", "state machine actors absent in Rig-L (compaction writes a header-only snapshot through the real snapshot manager)"]

ASSUME_DISK = [
    "crash model: process death with the OS surviving; a completed write call is atomic and survives; completion order == issue order across all handles",
    "short reads of regular files are not injected (tokio::fs returns full counts below 2 MiB); short writes are",
    "log geometry knob (hook H5) changes only the records-per-index-entry and the size of the index area of newly created log files, both of which the code reads back from the file header",
]

CHECKS = {
    "C02": {
        "level": "exploration",
        "quick": {"runs": 8000, "wall_s": 60},
        "thorough": {"runs": 400000, "wall_s": 1200},
        "rule": "seeded histories over {append, replicate batch, delete-from, hard state, membership, compaction pointer, save-applied, advance, reopen} with alignment-biased payload sizes and swarm-chosen log geometry / disk latencies; after every step the full log, 2 random sub-ranges and the initial state are compared with a reference log; a run is non-trivial when it reopened the store at least once with >= 2 entries in the model; distinct = distinct event-log hash",
        "probes": ["record_gt_1024", "record_ge_16k", "truncate_nonempty", "pointer_applied", "reopen_catalogue_le_20", "reopen_multi_file", "reopen_3plus_files", "record_ends_at_file_end"],
        "assumptions": ASSUME_DISK,
        "real": RIG_L_REAL,
        "stub": RIG_L_STUB,
    },
    "C03": {
        "level": "exploration",
        "quick": {"runs": 12000, "wall_s": 60},
        "thorough": {"runs": 400000, "wall_s": 1200},
        "rule": "seeded log shapes (1..n files via the geometry knob, compaction-pointer files, installed-snapshot pointers inside and beyond the log, reopen) x cut points (small offsets, multiples of the index interval +-1, anywhere, beyond the end) x re-appended sizes (shorter / equal / longer than the removed entries) x optional reopen, several rounds per run; oracle after every step: entries below the cut unchanged, entries at or above it unreadable, append at the cut accepted, payloads of removed entries never returned, the same after reopen; non-trivial = at least one truncation removed entries and the store was reopened; distinct = distinct event-log hash",
        "probes": ["truncate_nonempty", "pointer_applied", "install_pointer_inside", "install_pointer_ahead", "reopen_multi_file", "reopen_3plus_files", "record_gt_1024"],
        "assumptions": ASSUME_DISK + ["InstallPointer emulates FileStore::finalize_snapshot_installation's two log-manager requests with async-raft's delete_through rule (Rig-L has no state machine); the real call is exercised by C08 on Rig-N"],
        "real": RIG_L_REAL,
        "stub": RIG_L_STUB,
    },
    "C05": {
        "level": "exploration",
        "quick": {"runs": 24000, "wall_s": 60},
        "thorough": {"runs": 600000, "wall_s": 1200},
        "rule": "seeded interleavings of save-hard-state, membership and address updates (alternating long and short records), the other writers of the same file (roll-over SaveLogs, compaction SaveSnapshots, last-applied header), clean reopen and kill -9 placed immediately after an acknowledgement (no observation in between) under swarm-chosen disk latencies; register oracle: every read in the same or any later incarnation returns the last acknowledged (term, vote, membership, addresses); after a kill the value must be one of the versions acknowledged since the last version known durable, and anything older than the last acknowledged version is reported as clause ack_before_durable; non-trivial = reopened at least once with >= 2 log entries; distinct = distinct event-log hash",
        "probes": ["crash_now", "ack_before_durable_seen", "reopen_catalogue_le_20", "pointer_applied", "reopen_multi_file"],
        "assumptions": ASSUME_DISK + ["no short writes in runs that contain kills (a kill between the two halves would be a torn write, outside the crash model)", "after a kill the log itself is not compared in C05 (C04's subject)"],
        "real": RIG_L_REAL,
        "stub": RIG_L_STUB,
    },
    "C20": {
        "level": "exploration",
        "quick": {"runs": 300000, "wall_s": 60},
        "thorough": {"runs": 20000000, "wall_s": 900},
        "rule": "seeded record-length sequences (0..40 records; bodies biased to 1/2/127/128 byte prefixes, frames ending within +-8 bytes of 1024 and 2048, 16383/16384, 70 kB) encoded by the store's own writers, optional zero terminator and stale bytes after it, decoded (a) by MessageBufReader fed a PRNG partition of the stream (chunk styles: tiny, around 1024, ending exactly on record boundaries, byte-by-byte, full 1024) in the log-scan and in the stream-reader loop, (b) by FileMessageReader read_next / read_index_position / read_to_end over a simulated file, (c) by the 1024-byte read loop and by the real SnapshotReader over a simulated file with PRNG-short reads; oracle: decoded frames == written frames, in order, none after the first zero length, none dropped; non-trivial = at least 2 records; distinct = distinct event-log hash. The varint clause (writer, reader, size function agree) has no I/O or schedule in it and is checked as plain enumeration (boundary values of every length + 200 seeded values per run), reported under varint.values_checked, not as simulated runs.",
        "probes": ["record_gt_1024", "record_ends_on_chunk_end", "prefix_1b", "prefix_2b", "prefix_3b", "snapshot_header_gt_1024"],
        "assumptions": ["short reads are injected only into readers that loop over reads (MessageBufReader consumers); FileMessageReader::read_len/read_next issue one read per item and rely on tokio::fs returning full counts below 2 MiB - records above 2 MiB through read_next are out of the explored sizes", "record bodies are PRNG bytes without zeros"],
        "real": ["MessageBufReader, FileMessageReader, write_varint64/read_varint64/inner_sizeof_varint, SnapshotReader, quick-protobuf writers of LogRecord / LogSnapshotItem / SnapshotHeader"],
        "stub": ["tokio::fs -> simtokio::fs (reads return PRNG-short counts when enabled)"],
    },
    "C04": {
        "level": "fault_enumeration",
        "quick": {"runs": 4000, "wall_s": 90},
        "thorough": {"runs": 40000, "wall_s": 1500},
        "rule": "histories of 3..14 operations over {append, replicate, delete-from, hard state, membership, compaction (snapshot file + catalogue + pointer log), snapshot install (create_snapshot, InstallSnapshot, split-off, pointer), save-applied, advance past the flush timer, reopen} are executed once fault-free with PRNG disk latencies, settling after every operation (checkpoint = journal position + reference model); then EVERY prefix of the journal of file mutations (create, write, set_len, rename, unlink, flush marker) - or, above the per-history cap, every prefix adjacent to a non-data mutation plus PRNG positions - is materialised as a disk image and the real recovery is run on it; per image: reopens and answers, log contiguous, every entry equals the state before or after the interrupted operation, entries untouched by the interrupted operation present, last index/term consistent with the readable log, (term, vote) and membership equal to some value written before, last-applied <= max(snapshot, log), a further append at last+1 and a second reopen keep the log; evaluations = histories; non-trivial = at least 10 images checked; distinct = distinct event-log hash; crash images are counted under faults_fired.fault.crash_image",
        "probes": ["truncate_nonempty", "pointer_applied", "install_pointer_inside", "install_pointer_ahead", "image_catalogue_lists_missing_log"],
        "assumptions": ASSUME_DISK + ["exhaustive over crash prefixes of each sampled history up to the cap (120 images per history quick, 400 thorough); histories are sampled", "an image whose catalogue lists a missing log file or a log file whose header starts at another index, and that then fails a clause is reported under the clause catalogue_out_of_step_with_log_files (known finding) and its other clauses are not evaluated", "state machine absent (Rig-L): snapshot files carry a header only; the start-up replay into the state machine is covered by C01"],
        "real": RIG_L_REAL,
        "stub": RIG_L_STUB,
    },
    "C01": {
        "level": "exploration",
        "quick": {"runs": 3200, "wall_s": 120},
        "thorough": {"runs": 60000, "wall_s": 1500},
        "rule": "one complete node (real config_factory: all actors, async-raft, file store) with a swarm-chosen compaction threshold (5..40 entries) and disk latencies; seeded workload through the public routes (config publish with/without type and description, same-content publishes, remove; namespace set/delete; user add/update/remove; sequence ids and ranges; persistent instance register/remove) interleaved with clean stop + restart (1..n per run, always one at the end); at every restart: observation before the stop (records of the real RaftDataHandler::build_snapshot as a multiset + config GET/md5/type/desc/history for 30 keys + namespace list + user list + config listing) must equal the reference model and must equal the observation after the restart (polled up to 60 simulated s after the node reports the pre-stop log index applied); non-trivial = at least one restart and >= 5 steps; distinct = distinct event-log hash",
        "probes": ["restart_with_snapshot", "restart_right_after_compaction", "restart_snapshot_plus_suffix", "observed_partial_state_during_startup_load", "replay_applies_entries_already_in_snapshot", "default_admin_recreated_during_startup_load"],
        "assumptions": ["stop point = every issued disk mutation has completed (the statement's 'all acknowledged writes have reached the OS')", "a publish without type / description keeps the previous ones (code's rule; the statement leaves it open)", "the namespace-migration marker record (__already_sync) is bookkeeping and excluded from the comparison", "every incarnation is kept alive for 12 simulated s after start so that its own one-time start-up timers fire while it is alive (killed incarnations cannot be destroyed inside the shared runtime)", "interrupted compactions (partial snapshot file) are not generated yet; MCP and cache requests are not in the workload"],
        "real": ["complete node: config_factory + build_share_data (all ~35 actors), async-raft-ext, FileStore, ConfigRoute / RaftRequestRoute / UserManager / SequenceManager", "actix + tokio current-thread runtime with paused clock"],
        "stub": STUB + ["transport unused (single node)", "HTTP/gRPC servers not started (routes and actors are called directly)"],
    },
    "C07": {
        "level": "exploration",
        "quick": {"runs": 3200, "wall_s": 120},
        "thorough": {"runs": 60000, "wall_s": 1500},
        "rule": "a real single-node leader applies a seeded workload (same alphabet as C01) through async-raft's leader path; its committed log is then read back and fed, entry for entry, into a second, passive complete node through the follower path (replicate_to_log + replicate_to_state_machine) with a PRNG split into batches (1, 2, 5, 20 or all), optionally with a clean restart of that node in the middle (start-up replay: snapshot + log up to the recorded applied index), optionally after a compaction; oracle: the full observation (as C01) of the follower-path node equals the leader's; non-trivial = >= 10 log entries; distinct = distinct event-log hash",
        "probes": ["follower_restarted_mid_log", "follower_compacted_before_restart"],
        "assumptions": ["the request sequence is whatever the real leader committed for the generated workload (all ClientRequest variants that the workload reaches: NodeAddr, Members, ConfigSet, ConfigRemove, TableManagerReq, NamespaceReq, SequenceReq, NamingReq); McpReq, CacheReq and ConfigFullValue are not generated yet"],
        "real": ["two complete nodes (config_factory), async-raft leader on the first, FileStore follower path driven through the RaftStorage trait on the second"],
        "stub": STUB + ["async-raft's replication to the second node is played by the harness (it calls the RaftStorage methods async-raft calls)"],
    },
    "C06": {
        "level": "exploration",
        "quick": {"runs": 1600, "wall_s": 150},
        "thorough": {"runs": 40000, "wall_s": 1800},
        "rule": "3 complete nodes formed by the product's own sequence (node 1 auto-init, nodes 2 and 3 auto-join over the simulated transport, membership {1,2,3} required on all before the workload); seeded script of config publishes (unique contents) and removes on 4 keys addressed to arbitrary nodes through ConfigRoute (what the HTTP and gRPC handlers call), issued as concurrent client tasks with recorded invoke/return event numbers, interleaved with kill -9 + restart of any node or of the current leader, isolation of a node or of the leader, one-way cuts, heal, and lossy / duplicating / slow network modes, never more than a minority down or cut off; 70 % of the runs start with a forced leader change; then all faults stop. Oracles: (liveness) a probe write succeeds within 60 simulated s; (convergence) within 60 s all nodes serve the same (content, md5) and the same history for all 30 keys; (never lost) every publish answered with success is in the committed history of its key; (order) real-time order of acknowledged publishes agrees with the history; (final value) the final value is that of an operation not overwritten in real time by a later acknowledged one; (direct) no success from a node that was cut off from both others for the whole call. non-trivial = at least 5 client operations; distinct = distinct event-log hash",
        "probes": ["acks_by_formation_term_leader", "ack_while_cut_off", "entry_skipped_at_leader_change", "conflicting_suffix_never_repaired"],
        "assumptions": ["SIGSTOP is approximated by isolation (a stalled node's timers still run)", "compaction is disabled in these runs (snapshot threshold 10000): see C08", "runs in which one of the three recorded root causes (known_findings.jsonl) is detected by its signature report it as a finding and do not evaluate the consequences; all other runs evaluate every clause", "clients call ConfigRoute directly (HTTP / gRPC framing absent)"],
        "real": ["three complete nodes (config_factory), async-raft-ext 0.6.3 (elections, replication, membership change), FileStore, ConfigRoute + RaftRouteRequestHandler + handle_route, InvokerHandler dispatch"],
        "stub": STUB + ["transport: RaftClusterRequestSender::send_request -> simulated network -> target InvokerHandler::handle (tonic/h2/TCP absent; 20-line prelude of RequestServerImpl::request re-implemented)"],
    },
    "C08": {
        "level": "exploration",
        "quick": {"runs": 800, "wall_s": 150},
        "thorough": {"runs": 30000, "wall_s": 1800},
        "rule": "leader with a swarm-chosen compaction threshold (5..30) receives a seeded workload of threshold+5..90 writes (configs, namespaces, users) so that its log is compacted; a second complete node either (scenario 0) is started only then, or (scenario 1) was a member and was isolated or killed after a few writes; it is then connected and a client keeps writing (one write per 100 simulated ms, at once while the needs-snapshot loop is detected) until the follower has the leader's log; oracle: within 60 simulated s, without restarting it, the follower's full observation (as C01) equals the leader's, its stored membership equals the leader's, the equality holds after a clean restart of the follower, and a later write is served by it within 30 s; non-trivial = the follower really received a snapshot (get_current_snapshot on the follower); distinct = distinct event-log hash",
        "probes": ["snapshot_installed_on_follower", "installed_snapshot_not_loaded", "installed_snapshot_not_loaded_permanent", "follower_restarted", "needs_snapshot_loop_detected"],
        "assumptions": ["no disk latency in these runs (during async-raft's needs-snapshot loop no simulated time passes, a compaction waiting for a disk timer would never finish)", "runs in which the recorded defect 'installed snapshot not loaded' is detected by its signature do not evaluate its consequences"],
        "real": ["two complete nodes, async-raft-ext InstallSnapshot streaming through RaftSnapshotRequestHandler, FileStore::create_snapshot / finalize_snapshot_installation, StateApplyManager::apply_snapshot"],
        "stub": STUB + ["transport as C06"],
    },
    "C19": {
        "level": "exploration",
        "quick": {"runs": 1600, "wall_s": 150},
        "thorough": {"runs": 40000, "wall_s": 1800},
        "rule": "1 node (60 %) or 3 nodes (40 %, after a forced early leader change); seeded script of next-id requests (1..6 per step) and direct range requests (1..120) on 3 named sequences from arbitrary nodes, issued as concurrent client tasks (several in flight per node, so the double buffer's refill races its consumers), config publishes (history ids), clean restarts and kill -9 restarts (followers only in the 3-node variant), small compaction thresholds and disk latencies; oracle over the whole run: no id of a sequence is returned twice by any node, ids of one kind (cache / direct range) on one node increase in real-time order, history ids are never stamped on two different entries and decrease newest-first; non-trivial = at least 4 id requests answered; distinct = distinct event-log hash",
        "probes": ["node_restarted", "needs_snapshot_loop_detected"],
        "assumptions": ["ids of the node-local cache (GetNextId) and directly drawn ranges (GetDirectRange) are compared for monotonicity within one kind only: they come from different ranges by design", "explicit resets (SetId) are not generated", "leader death in the 3-node variant is excluded (it runs into the async-raft defects recorded under C06)"],
        "real": ["complete node(s): SequenceManager (double-buffered client side), SequenceDbManager (state machine), ConfigActor history-id sequence, async-raft, FileStore"],
        "stub": STUB + ["transport as C06 in the 3-node variant"],
    },
}
