#!/bin/bash
# usage: thorough_some.sh <checks...>   (background exploration; not a registered check)
for c in "$@"; do
  out=$(./check $c --tier thorough 2>&1); rc=$?
  echo "== thorough $c rc=$rc $(echo "$out" | grep -E ' runs, ' | tail -1)"
  echo "$out" | grep -E "VIOLATION|HARNESS|clause=" | cut -c1-900
done
