#!/bin/bash
# usage: mkwt.sh <ID>...   scratch worktrees of /repo for independent sub-agents (seeded breaking changes); removed after use
for id in "$@"; do
  d=/tmp/wt-${id}g
  git -C /repo worktree add --detach $d HEAD >/dev/null 2>&1 || { echo "worktree $d failed"; continue; }
  cp /tmp/r4/$id.json $d/PROPERTY.json
  [ -d /tmp/wt-base/target ] && cp -r /tmp/wt-base/target $d/target
  echo "$d ready"
done
